// C05: frame reader totality / progress / resynchronisation. Engine A, model checking of
// the reader state machine (bufio window over a stream; transition = one Read call):
// (a) all byte strings over a 5 symbol alphabet up to a length bound under ALL
// segmentations, (b) structured streams of frame pieces under 0,1,2 cuts at every offset
// and byte-by-byte, (c) a transport fault injected at every byte offset.
package main

import (
	"encoding/json"
	"errors"
	"fmt"
	"io"
	"runtime/debug"
	"sort"
	"time"

	"github.com/bluenviron/gomavlib/v3/pkg/dialect"
	"github.com/bluenviron/gomavlib/v3/pkg/dialects/common"
	"github.com/bluenviron/gomavlib/v3/pkg/frame"

	"verif/bx"
	"verif/gm"
	"verif/ref"
)

var sigma = []byte{0xFD, 0xFE, 0x00, 0x01, 0x02}

var key = make([]byte, 32)

type scase struct {
	Reader string `json:"reader"` // none | dialect | keyed
	Data   []byte `json:"data"`
	Cuts   []int  `json:"cuts"`
	// fault
	FaultAt    int    `json:"fault_at"`
	Fault      string `json:"fault"` // "" | eof | custom | unexpected
	FaultStyle int    `json:"fault_style"`
	// reference run to compare with (segmentation independence)
	RefCuts []int `json:"ref_cuts"`
	Clean   bool  `json:"clean"` // stream consists of valid frames and non-marker noise only
}

var errCustom = errors.New("injected transport failure")

var smallDialect *dialect.ReadWriter
var tindex gm.TypeIndex

func readerConf(name string) (*dialect.ReadWriter, *frame.V2Key) {
	switch name {
	case "dialect":
		return smallDialect, nil
	case "keyed":
		return smallDialect, frame.NewV2Key(key)
	}
	return nil, nil
}

func transport(c *scase, cuts []int) *gm.Transport {
	t := &gm.Transport{Data: c.Data, Cuts: cuts, FaultStyle: c.FaultStyle}
	switch c.Fault {
	case "eof":
		t.FaultErr, t.FaultAt = io.EOF, c.FaultAt
	case "custom":
		t.FaultErr, t.FaultAt = errCustom, c.FaultAt
	case "unexpected":
		t.FaultErr, t.FaultAt = io.ErrUnexpectedEOF, c.FaultAt
	}
	return t
}

type obs struct {
	From, To int
	D        string
}

func observe(calls []gm.Call) []obs {
	o := make([]obs, len(calls))
	for i := range calls {
		o[i] = obs{calls[i].From, calls[i].To, calls[i].Describe()}
	}
	return o
}

// evalStream runs one (stream, segmentation, fault) and checks all clauses; ntrans returns
// the number of Read transitions.
func evalStream(c *scase) (string, int) {
	drw, k := readerConf(c.Reader)
	t := transport(c, c.Cuts)
	calls, prob := gm.RunStream(t, drw, k)
	n := len(calls)
	if prob != "" {
		return prob, n
	}
	limit := len(c.Data)
	if c.Fault != "" && c.FaultAt < limit {
		limit = c.FaultAt
	}
	if n > limit+1 {
		return fmt.Sprintf("%d calls for %d deliverable bytes", n, limit), n
	}
	var kb []byte
	if k != nil {
		kb = key
	}
	for i := range calls {
		cl := &calls[i]
		last := i == n-1
		if !last || cl.Err == nil || cl.ReadErr {
			if cl.To-cl.From < 1 {
				return fmt.Sprintf("call %d (%s) consumed %d bytes", i, cl.Describe(), cl.To-cl.From), n
			}
		}
		if cl.Frame != nil && cl.Err != nil {
			return "frame and error returned together", n
		}
		if d := gm.CheckDelivered(cl, c.Data, tindex, kb); d != "" {
			return fmt.Sprintf("call %d: %s", i, d), n
		}
	}
	// the terminal result is the transport's own error
	lastc := calls[n-1]
	if lastc.Err == nil || lastc.ReadErr {
		return "stream did not end with the transport's error", n
	}
	want := io.EOF
	if t.FaultErr != nil && c.FaultAt < len(c.Data) {
		want = t.FaultErr
	} else if t.FaultErr != nil {
		want = t.FaultErr
	}
	if !errors.Is(lastc.Err, want) {
		return fmt.Sprintf("terminal error %v is not the transport's own error %v", lastc.Err, want), n
	}
	// (whether the bytes of a frame cut short by the end of the stream count as consumed when
	// the transport's error is reported is not part of the statement: not checked)
	// clean streams: every valid frame comes out, in order
	if c.Clean && c.Fault == "" {
		var wantFrames [][2]int
		for _, it := range ref.ParseStream(c.Data) {
			if it.Kind == ref.KindFrame {
				wantFrames = append(wantFrames, [2]int{it.Start, it.End})
			}
		}
		var got [][2]int
		for i := range calls {
			if calls[i].Frame != nil {
				got = append(got, [2]int{calls[i].From, calls[i].To})
			}
		}
		if fmt.Sprint(got) != fmt.Sprint(wantFrames) {
			return fmt.Sprintf("stream of valid frames and non-marker noise: delivered frames at %v, the frames are at %v", got, wantFrames), n
		}
	}
	// segmentation independence
	if c.RefCuts != nil || len(c.Cuts) > 0 {
		t2 := transport(c, c.RefCuts)
		calls2, prob2 := gm.RunStream(t2, drw, k)
		n += len(calls2)
		if prob2 != "" {
			return "reference segmentation: " + prob2, n
		}
		a, b := observe(calls), observe(calls2)
		if fmt.Sprint(a) != fmt.Sprint(b) {
			return fmt.Sprintf("results depend on the segmentation: cuts %v give %v, cuts %v give %v", c.Cuts, a, c.RefCuts, b), n
		}
	}
	return "", n
}

// ---- pieces for structured streams

type piece struct {
	name  string
	b     []byte
	clean bool // valid frame or non-marker noise
}

func mkframe(v2 bool, plen int, signed bool, seq byte) []byte {
	// HEARTBEAT-like payloads are only meaningful with the dialect; use id 0 (in dialect) so that
	// checksum validation is exercised, payload truncated/padded as a v2 payload of any length
	p := make([]byte, plen)
	for i := range p {
		p[i] = byte(i*3 + 1)
	}
	f := ref.Frame{V2: v2, Seq: seq, Sys: 1, Comp: 2, ID: 0, Payload: p}
	if !v2 {
		// v1 needs the exact base length: use SYS_STATUS? keep id 0 with 9 bytes when plen==9, else an id outside the dialect
		if plen != 9 {
			f.ID = 200
		}
	}
	if signed {
		f.Incompat = 1
		f.LinkID = 3
		f.Timestamp = 1000 + uint64(seq)
	}
	f.Checksum = f.ComputeChecksum(50)
	if signed {
		f.Sig = f.Sign(key)
	}
	return f.Bytes()
}

func pieces() (small, big []piece) {
	small = []piece{
		{"v1p0", mkframe(false, 0, false, 1), true},
		{"v1p9", mkframe(false, 9, false, 2), true},
		{"v2p1", mkframe(true, 1, false, 3), true},
		{"v2p9", mkframe(true, 9, false, 4), true},
		{"v2p3s", mkframe(true, 3, true, 5), true},
		{"noise1", []byte{0x00}, true},
		{"noise3", []byte{0x11, 0xFC, 0xFF}, true},
		{"markerFD", []byte{0xFD}, false},
		{"markerFE", []byte{0xFE}, false},
		{"v2cut5", mkframe(true, 9, false, 6)[:5], false},
		{"v1cut7", mkframe(false, 9, false, 7)[:7], false},
		{"v2cutsig", mkframe(true, 3, true, 8)[:20], false},
	}
	bad := mkframe(true, 9, false, 9)
	bad[len(bad)-1] ^= 0x55
	small = append(small, piece{"v2badck", bad, false})
	flags := mkframe(true, 1, false, 10)
	flags[2] = 0x04
	small = append(small, piece{"v2badflags", flags, false})
	inside := append([]byte{0x33, 0xFE}, 0x44)
	small = append(small, piece{"markerInNoise", inside, false})
	big = []piece{
		{"v1p255", mkframe(false, 255, false, 11), true},
		{"v2p255", mkframe(true, 255, false, 12), true},
		{"v2p255s", mkframe(true, 255, true, 13), true},
		{"noise40", func() []byte {
			b := make([]byte, 40)
			for i := range b {
				b[i] = byte(i + 1)
			}
			return b
		}(), true},
	}
	return
}

func main() {
	r := bx.Start("C05", "model_checking")
	debug.SetGCPercent(1600) // many short-lived readers on all cores, tiny live heap
	var err error
	smallDialect, err = gm.DialectRW(&dialect.Dialect{Version: 3, Messages: common.Dialect.Messages[:3]})
	if err != nil {
		bx.Fatalf("%v", err)
	}
	corpus, err := gm.Corpus()
	if err != nil {
		bx.Fatalf("%v", err)
	}
	tindex = gm.NewTypeIndex(corpus)
	r.Replayer = func(class string, raw json.RawMessage) (bool, string) {
		var c scase
		json.Unmarshal(raw, &c)
		var d string
		if p := bx.Catch(func() { d, _ = evalStream(&c) }); p != "" {
			d = p
		}
		return d != "", d
	}
	if r.ReplayMode() {
		return
	}

	t0 := time.Now()
	var streams, runs, trans bx.Counter
	var outcomes bx.Distinct
	fail := func(class string, c *scase, d string) {
		r.Fail(class, fmt.Sprintf("%s %x cuts=%v fault=%s@%d/%d", c.Reader, c.Data, c.Cuts, c.Fault, c.FaultAt, c.FaultStyle), c, d)
	}
	run := func(class string, c *scase) {
		var d string
		var n int
		if p := bx.Catch(func() { d, n = evalStream(c) }); p != "" {
			d = p
		}
		runs.Add(1)
		trans.Add(n)
		if d != "" {
			fail(class, c, d)
		}
	}

	// ---- (a) all strings over sigma up to length L under all segmentations
	L := r.Pick(7, 9)
	for n := 1; n <= L; n++ {
		total := 1
		for i := 0; i < n; i++ {
			total *= len(sigma)
		}
		n := n
		bx.ParDo(total, func(idx int) {
			if idx%512 == 0 && r.Expired() {
				return
			}
			data := make([]byte, n)
			x := idx
			for i := 0; i < n; i++ {
				data[i] = sigma[x%len(sigma)]
				x /= len(sigma)
			}
			streams.Add(1)
			for _, rd := range []string{"none", "dialect"} {
				// reference: whole stream in one read; then every segmentation
				base := &scase{Reader: rd, Data: data}
				drw, k := readerConf(rd)
				calls0, prob := gm.RunStream(transport(base, nil), drw, k)
				if prob != "" {
					fail("small_alphabet", base, prob)
					continue
				}
				o0 := fmt.Sprint(observe(calls0))
				outcomes.AddString(o0)
				run("small_alphabet", base)
				for seg := 1; seg < 1<<uint(n-1); seg++ {
					var cuts []int
					for i := 0; i < n-1; i++ {
						if seg&(1<<uint(i)) != 0 {
							cuts = append(cuts, i+1)
						}
					}
					c := &scase{Reader: rd, Data: data, Cuts: cuts}
					calls, prob := gm.RunStream(transport(c, cuts), drw, k)
					runs.Add(1)
					trans.Add(len(calls))
					if prob != "" {
						fail("small_alphabet", c, prob)
						break
					}
					if o := fmt.Sprint(observe(calls)); o != o0 {
						c.RefCuts = []int{}
						fail("small_alphabet", c, fmt.Sprintf("results depend on the segmentation: cuts %v give %v, one piece gives %v", cuts, o, o0))
						break
					}
				}
			}
			if idx == total/2 && n == L {
				r.Sample(map[string]any{"stream": fmt.Sprintf("%x", data), "segmentations": 1 << uint(n-1)})
			}
		})
	}

	r.Note(fmt.Sprintf("phase a done at %.1fs", time.Since(t0).Seconds()))
	// ---- (b) structured streams
	small, big := pieces()
	type st struct {
		data  []byte
		clean bool
		name  string
		sm    bool
	}
	var sts []st
	addSeq := func(ps ...piece) {
		var d []byte
		cl := true
		nm := ""
		for _, p := range ps {
			d = append(d, p.b...)
			cl = cl && p.clean
			nm += p.name + "+"
		}
		sts = append(sts, st{d, cl, nm, false})
	}
	for _, a := range small {
		addSeq(a)
		for _, b := range small {
			addSeq(a, b)
			if r.Thorough() {
				for _, c := range small {
					addSeq(a, b, c)
				}
			}
		}
	}
	if !r.Thorough() {
		// quick: triples over the first 7 (frames and noise) + error pieces in the middle
		for _, a := range small[:7] {
			for _, b := range small {
				for _, c := range small[:7] {
					addSeq(a, b, c)
				}
			}
		}
	}
	nsmall := len(sts)
	for i := range sts {
		sts[i].sm = true
	}
	for _, a := range big {
		addSeq(a)
		for _, b := range append(append([]piece{}, big...), small[:6]...) {
			addSeq(a, b)
			addSeq(b, a)
		}
	}
	addSeq(big[1], big[0], big[2], small[3]) // > 512 bytes: bufio window wraps
	// every byte value where a marker is expected: alone, before a frame, between two frames
	for b := 0; b < 256; b++ {
		if b == 0xFD || b == 0xFE {
			continue
		}
		one := piece{fmt.Sprintf("byte%02x", b), []byte{byte(b)}, true}
		addSeq(one)
		addSeq(one, small[2])
		addSeq(small[0], one, one, small[3])
	}
	var fsts []st
	for i, s := range sts {
		if i < len(small) || (i >= nsmall) || i%9 == 0 {
			fsts = append(fsts, s)
		}
	}
	sort.SliceStable(sts, func(i, j int) bool { return len(sts[i].data) > len(sts[j].data) })
	bx.ParDo(len(sts), func(i int) {
		s := sts[i]
		if r.Expired() {
			return
		}
		streams.Add(1)
		n := len(s.data)
		for _, rd := range []string{"none", "dialect", "keyed"} {
			clean := s.clean
			if rd == "keyed" {
				clean = false // unsigned frames are (rightly) refused: only soundness and independence
			}
			mk := func(cuts []int) *scase {
				return &scase{Reader: rd, Data: s.data, Cuts: cuts, RefCuts: []int{}, Clean: clean}
			}
			run("structured", &scase{Reader: rd, Data: s.data, Clean: clean})
			// byte by byte
			all := make([]int, 0, n)
			for k := 1; k < n; k++ {
				all = append(all, k)
			}
			run("structured", mk(all))
			for c1 := 1; c1 < n; c1++ {
				run("structured", mk([]int{c1}))
			}
			if s.sm && n <= 64 {
				for c1 := 1; c1 < n; c1++ {
					for c2 := c1 + 1; c2 < n; c2++ {
						run("structured", mk([]int{c1, c2}))
					}
				}
			} else {
				// pairs near the interesting boundaries only
				for c1 := 1; c1 < n; c1 += 7 {
					for d := 1; d <= 14 && c1+d < n; d++ {
						run("structured", mk([]int{c1, c1 + d}))
					}
				}
			}
		}
		if i%997 == 0 {
			r.Sample(map[string]any{"pieces": s.name, "bytes": len(s.data)})
		}
	})

	r.Note(fmt.Sprintf("phase b done at %.1fs", time.Since(t0).Seconds()))
	// ---- (c) transport fault at every offset
	sort.SliceStable(fsts, func(i, j int) bool { return len(fsts[i].data) > len(fsts[j].data) })
	bx.ParDo(len(fsts), func(i int) {
		s := fsts[i]
		if r.Expired() {
			return
		}
		n := len(s.data)
		for _, rd := range []string{"none", "dialect"} {
			kinds := []string{"eof", "custom", "unexpected"}
			atStep := 1
			if n > 100 && !r.Thorough() {
				kinds = []string{"custom"}
				atStep = 3
			}
			for _, fk := range kinds {
				for at := 0; at <= n; at += atStep {
					for style := 0; style < 2; style++ {
						base := scase{Reader: rd, Data: s.data, FaultAt: at, Fault: fk, FaultStyle: style}
						run("fault", &base)
						// segmentations: byte-by-byte and one cut before the fault; compared with one piece
						all := make([]int, 0, n)
						for k := 1; k < n; k++ {
							all = append(all, k)
						}
						c := base
						c.Cuts, c.RefCuts = all, []int{}
						run("fault", &c)
						step := 1
						if n > 100 {
							step = 5
							if !r.Thorough() {
								step = 40
							}
						}
						for c1 := 1; c1 < at; c1 += step {
							c := base
							c.Cuts, c.RefCuts = []int{c1}, []int{}
							run("fault", &c)
						}
						// both fault styles give the same results
						if style == 1 {
							o1, _ := gm.RunStream(transport(&base, nil), nil, nil)
							b0 := base
							b0.FaultStyle = 0
							o0, _ := gm.RunStream(transport(&b0, nil), nil, nil)
							if rd == "none" && fmt.Sprint(observe(o0)) != fmt.Sprint(observe(o1)) {
								fail("fault", &base, fmt.Sprintf("results depend on how the transport reports the fault: (0,err) gives %v, (n,err) gives %v", observe(o0), observe(o1)))
							}
						}
					}
				}
			}
		}
	})

	r.Assumption = []string{
		"(a) alphabet {FD,FE,00,01,02}: complete frames need >= 8 (v1) / 12 (v2) bytes, so the exhaustive part mostly explores truncation and resynchronisation; complete, damaged and signed frames are covered by the structured streams (b)",
		"how many bytes a failed parse consumes beyond the first is not asserted (only >= 1, segmentation independence, and correspondence of delivered frames to consumed bytes)",
	}
	r.Finish(map[string]any{
		"states":                        outcomes.N() + streams.N(),
		"transitions":                   trans.N(),
		"traces_validated_against_impl": runs.N(),
		"evaluations":                   runs.N(),
		"distinct_nontrivial":           outcomes.N(),
		"rule":                          "a run = one stream under one segmentation and fault placement read to exhaustion through frame.Reader; transitions = Read calls; states = distinct streams + distinct result sequences of the exhaustive part; all clauses (totality, >=1 byte progress, <= n+1 calls, terminal transport error identity, delivered frame == consumed bytes, valid frames in order, independence from segmentation and fault style) are checked on every run",
		"max_len_exhaustive":            L,
		"streams":                       streams.N(),
		"structured_streams":            len(sts),
		"fault_streams":                 len(fsts),
	})
}
