// C02: checksum gate. Engine A: (1) the complete (crc state, byte) step space of the X.25
// hash against a bit-serial reference, all segmentations of short strings; (2) every
// single-bit flip / byte substitution of valid frames of every dialect message through the
// real reader, with the soundness oracle evaluated on the bytes each call consumed.
package main

import (
	"encoding/json"
	"fmt"
	"github.com/bluenviron/gomavlib/v3/pkg/dialect"
	"github.com/bluenviron/gomavlib/v3/pkg/frame"
	"github.com/bluenviron/gomavlib/v3/pkg/message"
	"reflect"
	"sort"

	"github.com/bluenviron/gomavlib/v3/pkg/x25"

	"verif/bx"
	"verif/gm"
	"verif/ref"
)

// user-defined messages with ids above 65535 (no shipped message has one): the third id byte
// takes part in the checksum (round 10, seeded C02-j1)
type MessageWideA struct {
	A uint32
	B uint8
}

func (*MessageWideA) GetID() uint32 { return 0xABCDEF }

type MessageWideB struct {
	X uint16
	S string `mavlen:"4"`
}

func (*MessageWideB) GetID() uint32 { return 0x010000 }

func userTypes() ([]*gm.MsgType, error) {
	var out []*gm.MsgType
	for _, m := range []message.Message{&MessageWideA{}, &MessageWideB{}} {
		drw, err := gm.DialectRW(&dialect.Dialect{Version: 3, Messages: []message.Message{m}})
		if err != nil {
			return nil, err
		}
		t := reflect.TypeOf(m).Elem()
		def, err := ref.DefFromStruct(t, m.GetID())
		if err != nil {
			return nil, err
		}
		out = append(out, &gm.MsgType{Dialect: "user", Type: t, ID: m.GetID(), Def: def, RW: drw.GetMessage(m.GetID()), DRW: drw, Proto: m})
	}
	return out, nil
}

type hcase struct {
	Bytes []byte `json:"bytes"`
	Seg   int    `json:"seg"` // bit i set: cut after byte i
}

func evalHash(c hcase) string {
	h := x25.New()
	start := 0
	for i := range c.Bytes {
		if c.Seg&(1<<uint(i)) != 0 || i == len(c.Bytes)-1 {
			h.Write(c.Bytes[start : i+1])
			start = i + 1
		}
	}
	want := ref.CRC16(c.Bytes)
	if h.Sum16() != want {
		return fmt.Sprintf("x25(% x) seg=%b = %04x, reference %04x", c.Bytes, c.Seg, h.Sum16(), want)
	}
	// (hash.Hash conveniences - Sum's byte order, Size, BlockSize - are not part of the statement)
	h.Reset()
	if h.Sum16() != 0xFFFF {
		return "Reset does not restore 0xFFFF"
	}
	return ""
}

type gcase struct {
	Type   string `json:"type"`
	V2     bool   `json:"v2"`
	Fill   int    `json:"fill"`
	Damage []dmg  `json:"damage"`
	// Signed: the reader also has an incoming key; the frames are signed with it AFTER the
	// damage (a peer with a different definition of the message, or damage before signing):
	// the signature is valid, the checksum is not. SignedKind selects the damage.
	Signed     bool `json:"signed,omitempty"`
	SignedKind int  `json:"signed_kind,omitempty"` // 0 none, 1 other CRC_EXTRA, 2 checksum low byte, 3 checksum high byte, 4 first payload byte
}
type dmg struct {
	Pos int  `json:"pos"`
	Xor byte `json:"xor"`
}

var corpus []*gm.MsgType
var tindex gm.TypeIndex
var byName = map[string]*gm.MsgType{}

func goodFrame(mt *gm.MsgType, v2 bool, fillKind int, seq byte) []byte {
	vals := mt.Def.ZeroVals()
	k := uint64(1)
	for fi := range vals {
		if vals[fi].IsS {
			if fillKind > 0 {
				vals[fi].Str = "xyz"
			}
			continue
		}
		for j := range vals[fi].Bits {
			switch fillKind {
			case 1:
				vals[fi].Bits[j] = ^uint64(0)
			case 2:
				vals[fi].Bits[j] = k * 0x0102030405060708
				k++
			}
		}
	}
	canon := mt.Def.Canon(vals, v2)
	f := ref.Frame{V2: v2, Seq: seq, Sys: 11, Comp: 22, ID: mt.ID, Payload: mt.Def.Encode(canon, v2)}
	f.Checksum = f.ComputeChecksum(mt.Def.CRCExtra())
	return f.Bytes()
}

var gateKey = func() []byte {
	k := make([]byte, 32)
	for i := range k {
		k[i] = byte(3*i + 1)
	}
	return k
}()

func signedFrame(mt *gm.MsgType, fill int, seq byte, kind int) []byte {
	it, _ := ref.ParseOne(goodFrame(mt, true, fill, seq))
	f := it.Frame
	switch kind {
	case 1:
		f.Checksum = f.ComputeChecksum(mt.Def.CRCExtra() ^ 0x5A)
	case 2:
		f.Checksum ^= 0x0001
	case 3:
		f.Checksum ^= 0x8000
	case 4:
		if len(f.Payload) > 0 {
			f.Payload[0] ^= 0x10
		} else {
			f.Checksum ^= 0x0100
		}
	}
	f.Incompat = 1
	if kind == 0 {
		f.Checksum = f.ComputeChecksum(mt.Def.CRCExtra()) // the incompat flag is part of the hashed header
	}
	f.LinkID, f.Timestamp = 3, 1000+uint64(seq)
	f.Sig = f.Sign(gateKey)
	return f.Bytes()
}

// evalGateSigned: keyed reader with a dialect; a validly signed frame with a wrong checksum is
// refused with a non-fatal parse error, the validly signed well-formed one after it is delivered.
func evalGateSigned(c gcase) string {
	mt := byName[c.Type]
	if mt == nil {
		return ""
	}
	first := signedFrame(mt, c.Fill, 7, c.SignedKind)
	trail := signedFrame(mt, 2, 8, 0)
	data := append(append([]byte{}, first...), trail...)
	calls, prob := gm.RunStream(&gm.Transport{Data: data}, mt.DRW, frame.NewV2Key(gateKey))
	if prob != "" {
		return prob
	}
	for i := range calls {
		if d := gm.CheckDelivered(&calls[i], data, tindex, gateKey); d != "" {
			return fmt.Sprintf("call %d: %s", i, d)
		}
	}
	if len(calls) != 3 {
		return fmt.Sprintf("expected [first, trailing frame, EOF], got %v", describe(calls))
	}
	if c.SignedKind == 0 {
		if !calls[0].Decoded() || !calls[1].Decoded() {
			return fmt.Sprintf("validly signed well-formed frames not delivered: %v", describe(calls))
		}
		return ""
	}
	if calls[0].Frame != nil {
		return "a validly signed frame whose checksum is wrong for the dialect's CRC_EXTRA was delivered: " + calls[0].Describe()
	}
	if !calls[0].ReadErr {
		return "wrong checksum on a signed frame did not produce a non-fatal parse error: " + calls[0].Describe()
	}
	if !calls[1].Decoded() {
		return "trailing validly signed well-formed frame not delivered: " + calls[1].Describe()
	}
	return ""
}

// evalGate runs damaged frame + trailing good frame; returns problem.
func evalGate(c gcase) string {
	if c.Signed {
		return evalGateSigned(c)
	}
	mt := byName[c.Type]
	if mt == nil {
		return ""
	}
	first := goodFrame(mt, c.V2, c.Fill, 7)
	trail := goodFrame(mt, c.V2, 2, 8)
	data := append(append([]byte{}, first...), trail...)
	framingIntact := true
	for _, d := range c.Damage {
		data[d.Pos] ^= d.Xor
		if d.Pos <= 1 || (c.V2 && d.Pos == 2) {
			framingIntact = false
		}
	}
	t := &gm.Transport{Data: data}
	calls, prob := gm.RunStream(t, mt.DRW, nil)
	if prob != "" {
		return prob
	}
	for i := range calls {
		if d := gm.CheckDelivered(&calls[i], data, tindex, nil); d != "" {
			return fmt.Sprintf("call %d: %s", i, d)
		}
	}
	if len(c.Damage) == 0 {
		if len(calls) != 3 || !calls[0].Decoded() || !calls[1].Decoded() {
			return fmt.Sprintf("well-formed frames not delivered: %v", describe(calls))
		}
		return ""
	}
	if framingIntact {
		// the damaged frame keeps its extent: exactly one result for it, never a decoded message,
		// then the trailing frame
		if len(calls) != 3 {
			return fmt.Sprintf("expected [error-or-raw, trailing frame, EOF], got %v", describe(calls))
		}
		if calls[0].To != len(first) {
			return fmt.Sprintf("damaged frame consumed %d bytes, its extent is %d", calls[0].To, len(first))
		}
		if calls[0].Decoded() {
			return "damaged frame was delivered as a decoded message: " + calls[0].Describe()
		}
		idDamaged := false
		for _, d := range c.Damage {
			if (c.V2 && d.Pos >= 7 && d.Pos <= 9) || (!c.V2 && d.Pos == 5) {
				idDamaged = true
			}
		}
		if !idDamaged && !calls[0].ReadErr {
			return "damaged frame (id intact) did not produce a non-fatal parse error: " + calls[0].Describe()
		}
		if !calls[1].Decoded() {
			return "trailing well-formed frame not delivered: " + calls[1].Describe()
		}
	} else {
		// re-framed: only soundness (above), and the trailing frame must be delivered if the
		// reader's own consumption point lands exactly on its start
		for i := range calls {
			if calls[i].From == len(first) && !calls[i].Decoded() && calls[i].To == len(data) {
				return "reader reached the start of the trailing well-formed frame but did not deliver it: " + calls[i].Describe()
			}
		}
	}
	return ""
}

func describe(cs []gm.Call) []string {
	var o []string
	for i := range cs {
		o = append(o, cs[i].Describe())
	}
	return o
}

func main() {
	r := bx.Start("C02", "exploration")
	var err error
	corpus, err = gm.Corpus()
	if err != nil {
		bx.Fatalf("%v", err)
	}
	ut, err := userTypes()
	if err != nil {
		bx.Fatalf("%v", err)
	}
	corpus = append(corpus, ut...)
	tindex = gm.NewTypeIndex(corpus)
	for _, m := range corpus {
		byName[m.Name()] = m
	}
	r.Replayer = func(class string, raw json.RawMessage) (bool, string) {
		if class == "hash" {
			var c hcase
			json.Unmarshal(raw, &c)
			d := evalHash(c)
			return d != "", d
		}
		var c gcase
		json.Unmarshal(raw, &c)
		var d string
		if p := bx.Catch(func() { d = evalGate(c) }); p != "" {
			d = p
		}
		return d != "", d
	}
	if r.ReplayMode() {
		return
	}

	// ---- part 1: hash step space
	var hashEvals bx.Counter
	var states bx.Distinct
	bx.ParDo(65536, func(p int) {
		b1, b2 := byte(p>>8), byte(p)
		h := x25.New()
		h.Write([]byte{b1})
		h.Write([]byte{b2})
		st := h.Sum16()
		if want := ref.CRC16([]byte{b1, b2}); st != want {
			r.Fail("hash", fmt.Sprintf("%02x%02x", b1, b2), hcase{Bytes: []byte{b1, b2}, Seg: 1}, fmt.Sprintf("x25(%02x %02x)=%04x reference %04x", b1, b2, st, want))
			return
		}
		states.Add(uint64(st))
		for b3 := 0; b3 < 256; b3++ {
			// a fresh hash per 3-byte string (no struct copy: copying a hash is not an
			// operation the library promises)
			g := x25.New()
			g.Write([]byte{b1, b2})
			g.Write([]byte{byte(b3)})
			if want := ref.CRC16Update(st, []byte{byte(b3)}); g.Sum16() != want {
				r.Fail("hash", fmt.Sprintf("%02x%02x%02x", b1, b2, b3), hcase{Bytes: []byte{b1, b2, byte(b3)}, Seg: 3}, fmt.Sprintf("step (state %04x, byte %02x) = %04x, reference %04x", st, b3, g.Sum16(), want))
				return
			}
		}
		hashEvals.Add(256)
	})
	if states.N() != 65536 {
		r.Capped(fmt.Sprintf("only %d of 65536 crc states reached by 2-byte prefixes", states.N()))
	}
	// all segmentations of strings up to length 10
	strs := [][]byte{{}, {0}, {0xFF}, []byte("123456789"), {0xFD, 9, 0, 0, 1, 2, 3, 0, 0, 0}, {1, 2, 3, 4, 5, 6, 7, 8, 9, 10}, {0xFE, 0xFD, 0xFE, 0xFD, 0, 0, 0xFF, 0xFF, 0x80, 0x01}}
	nseg := 0
	for _, s := range strs {
		n := len(s)
		if n == 0 {
			if d := evalHash(hcase{Bytes: s}); d != "" {
				r.Fail("hash", "empty", hcase{Bytes: s}, d)
			}
			continue
		}
		for seg := 0; seg < 1<<uint(n-1); seg++ {
			nseg++
			c := hcase{Bytes: s, Seg: seg}
			if d := evalHash(c); d != "" {
				r.Fail("hash", fmt.Sprintf("%x/%b", s, seg), c, d)
			}
		}
	}
	if ref.CRC16([]byte("123456789")) != 0x6F91 {
		bx.Fatalf("reference CRC self-test failed")
	}

	// ---- part 2: gate
	var gateEvals bx.Counter
	var distinct bx.Distinct
	type work struct {
		mt   *gm.MsgType
		v2   bool
		fill int
		mode int // 0 bit flips, 1 byte substitutions, 2 pairs
	}
	var ws []work
	small := append([]*gm.MsgType{}, corpus...)
	sort.SliceStable(small, func(i, j int) bool {
		_, a := small[i].Def.Sizes()
		_, b := small[j].Def.Sizes()
		return a < b
	})
	inSmall := map[*gm.MsgType]bool{}
	for _, m := range small[:8] {
		inSmall[m] = true
	}
	for i, mt := range corpus {
		for _, v2 := range []bool{false, true} {
			if !v2 && mt.ID > 255 {
				continue
			}
			for fillKind := 0; fillKind < 3; fillKind++ {
				ws = append(ws, work{mt, v2, fillKind, 0})
			}
			if r.Thorough() || i%25 == 0 {
				ws = append(ws, work{mt, v2, 2, 1})
			}
			if inSmall[mt] {
				ws = append(ws, work{mt, v2, 2, 2})
			}
		}
	}
	bx.ParDo(len(ws), func(wi int) {
		w := ws[wi]
		if r.Expired() {
			return
		}
		n := len(goodFrame(w.mt, w.v2, w.fill, 7))
		run := func(c gcase) {
			gateEvals.Add(1)
			var d string
			if p := bx.Catch(func() { d = evalGate(c) }); p != "" {
				d = p
			}
			if d != "" {
				r.Fail("gate", fmt.Sprintf("%s v2=%v fill=%d %v", c.Type, c.V2, c.Fill, c.Damage), c, d)
			}
		}
		base := gcase{Type: w.mt.Name(), V2: w.v2, Fill: w.fill}
		switch w.mode {
		case 0:
			run(base)
			if w.v2 {
				// keyed reader: a valid signature does not excuse a wrong checksum
				for kind := 0; kind <= 4; kind++ {
					c := base
					c.Signed, c.SignedKind = true, kind
					run(c)
				}
			}
			for pos := 0; pos < n; pos++ {
				for bit := 0; bit < 8; bit++ {
					c := base
					c.Damage = []dmg{{pos, 1 << uint(bit)}}
					run(c)
				}
			}
			distinct.AddString(fmt.Sprint(base))
		case 1:
			for pos := 0; pos < n; pos++ {
				for x := 1; x < 256; x++ {
					c := base
					c.Damage = []dmg{{pos, byte(x)}}
					run(c)
				}
			}
		case 2:
			for p1 := 0; p1 < n; p1++ {
				for p2 := p1 + 1; p2 < n; p2++ {
					for _, x1 := range []byte{0xFF, 0x01, 0x80} {
						for _, x2 := range []byte{0xFF, 0x01, 0x80} {
							c := base
							c.Damage = []dmg{{p1, x1}, {p2, x2}}
							run(c)
						}
					}
				}
			}
		}
		if wi%211 == 0 {
			c := base
			c.Damage = []dmg{{n / 2, 0x10}}
			r.Sample(c)
		}
	})
	_ = reflect.TypeOf

	r.Assumption = []string{
		"multi-byte damage is bounded to all position pairs x 3 xor masks on the 8 smallest message types; larger random damage is not sampled",
		"damage to marker / length / incompat byte re-frames the stream: there only soundness on consumed bytes, totality and delivery of the trailing frame when the reader lands on it are asserted",
	}
	r.Finish(map[string]any{
		"evaluations":         hashEvals.N() + nseg + gateEvals.N(),
		"distinct_nontrivial": states.N() + distinct.N(),
		"rule":                "hash: all 2^16 x 2^8 (state, byte) steps via all 3-byte strings, distinct = crc states reached (must be 65536); gate: per (message type, version, fill) the valid frame, every single-bit flip of every byte, byte substitutions and byte pairs, each followed by a good frame; distinct = (type, version, fill) base frames",
		"hash_steps":          hashEvals.N(),
		"crc_states_reached":  states.N(),
		"hash_segmentations":  nseg,
		"gate_streams":        gateEvals.N(),
		"message_types":       len(corpus),
	})
}
