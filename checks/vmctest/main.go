//go:build vmc

// vmctest: litmus programs for the vmc runtime (run by bin/setup). Each program is explored
// exhaustively (large deviation budget) and the set of outcomes is compared with the set the
// Go specification allows - the shim must produce every allowed outcome and no other.
package main

import (
	"fmt"
	"os"
	"sort"
	"strings"
	"time"

	"github.com/bluenviron/gomavlib/v3/pkg/vmc"
	"github.com/bluenviron/gomavlib/v3/pkg/vmc/vatomic"
	"github.com/bluenviron/gomavlib/v3/pkg/vmc/vctx"
	"github.com/bluenviron/gomavlib/v3/pkg/vmc/vsync"
	"github.com/bluenviron/gomavlib/v3/pkg/vmc/vtime"
)

type litmus struct {
	name string
	body func(out *[]string)
	want []string // allowed outcomes (sorted, joined log), all must occur
	end  string   // expected End of every execution ("" = done)
}

func explore(l litmus) (map[string]bool, string) {
	got := map[string]bool{}
	var out []string
	var bad string
	e := &vmc.Explorer{
		Opt:  vmc.Options{Bound: 12, MaxSteps: 5000, MaxTime: time.Hour, NoCache: os.Getenv("VMCTEST_CACHE") != "1"},
		Body: func() { out = nil; l.body(&out) },
		Check: func(r *vmc.Result) string {
			want := l.end
			if want == "" {
				want = "done"
			}
			if r.End != want && !(want == "done" && r.End == "finish") {
				return fmt.Sprintf("execution ended with %s (%s), want %s; log %v", r.End, r.PanicMsg, want, out)
			}
			return ""
		},
		Outcome: func(r *vmc.Result) string {
			k := strings.Join(out, ",")
			if r.End == "panic" {
				k += "|panic:" + firstLine(r.PanicMsg)
			}
			got[k] = true
			return k
		},
		OnViolation: func(p []int, problem string, r *vmc.Result) bool { bad = problem; return false },
	}
	e.Run()
	return got, bad
}

func firstLine(s string) string {
	if i := strings.Index(s, "\n"); i >= 0 {
		s = s[:i]
	}
	if i := strings.Index(s, "): "); i >= 0 {
		s = s[i+3:]
	}
	return s
}

func main() {
	ls := []litmus{
		{name: "buffered FIFO", body: func(out *[]string) {
			c := vmc.NewChan[int](2)
			done := vmc.NewChan[struct{}](0)
			vmc.Go(func() { c.Send(1); c.Send(2); c.Send(3); c.Close() })
			vmc.Go(func() {
				for {
					v, ok := c.Recv2()
					if !ok {
						break
					}
					*out = append(*out, fmt.Sprint(v))
				}
				done.Close()
			})
			done.Recv()
		}, want: []string{"1,2,3"}},
		{name: "rendezvous: two senders, one receiver", body: func(out *[]string) {
			c := vmc.NewChan[string](0)
			vmc.Go(func() { c.Send("a") })
			vmc.Go(func() { c.Send("b") })
			x, y := c.Recv(), c.Recv()
			*out = append(*out, x+y)
		}, want: []string{"ab", "ba"}},
		{name: "close wakes all receivers", body: func(out *[]string) {
			c := vmc.NewChan[int](0)
			var wg vsync.WaitGroup
			for i := 0; i < 3; i++ {
				wg.Add(1)
				vmc.Go(func() {
					_, ok := c.Recv2()
					*out = append(*out, fmt.Sprint(ok))
					wg.Done()
				})
			}
			c.Close()
			wg.Wait()
		}, want: []string{"false,false,false"}},
		{name: "send on closed channel panics", body: func(out *[]string) {
			c := vmc.NewChan[int](1)
			c.Close()
			c.Send(1)
		}, want: []string{"|panic:send on closed channel"}, end: "panic"},
		{name: "close of closed channel panics", body: func(out *[]string) {
			c := vmc.NewChan[int](0)
			c.Close()
			c.Close()
		}, want: []string{"|panic:close of closed channel"}, end: "panic"},
		{name: "select default and nil channel", body: func(out *[]string) {
			var nilc *vmc.Chan[int]
			c := vmc.NewChan[int](1)
			k1 := nilc.RecvCase()
			k2 := c.RecvCase()
			*out = append(*out, fmt.Sprint(vmc.Select(true, k1, k2)))
			c.Send(7)
			k3 := nilc.SendCase(1)
			k4 := c.RecvCase()
			i := vmc.Select(false, k3, k4)
			*out = append(*out, fmt.Sprint(i, k4.Value()))
		}, want: []string{"-1,1 7"}},
		{name: "select picks any ready case", body: func(out *[]string) {
			a, b := vmc.NewChan[int](1), vmc.NewChan[int](1)
			a.Send(1)
			b.Send(2)
			ka, kb := a.RecvCase(), b.RecvCase()
			*out = append(*out, fmt.Sprint(vmc.Select(false, ka, kb)))
		}, want: []string{"0", "1"}},
		{name: "blocked forever is a deadlock", body: func(out *[]string) {
			c := vmc.NewChan[int](0)
			c.Recv()
		}, want: []string{""}, end: "quiescent"},
		{name: "mutex excludes", body: func(out *[]string) {
			var mu vsync.Mutex
			var wg vsync.WaitGroup
			x := 0
			for i := 0; i < 2; i++ {
				wg.Add(1)
				vmc.Go(func() {
					mu.Lock()
					v := x
					vmc.Step("inside")
					x = v + 1
					mu.Unlock()
					wg.Done()
				})
			}
			wg.Wait()
			*out = append(*out, fmt.Sprint(x))
		}, want: []string{"2"}},
		{name: "lost update without mutex", body: func(out *[]string) {
			var wg vsync.WaitGroup
			x := 0
			for i := 0; i < 2; i++ {
				wg.Add(1)
				vmc.Go(func() {
					v := x
					vmc.Step("between read and write")
					x = v + 1
					wg.Done()
				})
			}
			wg.Wait()
			*out = append(*out, fmt.Sprint(x))
		}, want: []string{"1", "2"}},
		{name: "ticker drops ticks for a slow receiver", body: func(out *[]string) {
			t := vtime.NewTicker(time.Second)
			vtime.Sleep(3500 * time.Millisecond)
			n := 0
			for {
				k := t.C.RecvCase()
				if vmc.Select(true, k) < 0 {
					break
				}
				n++
			}
			t.Stop()
			*out = append(*out, fmt.Sprint(n))
		}, want: []string{"1"}},
		{name: "time.After and virtual now", body: func(out *[]string) {
			t0 := vtime.Now()
			vtime.After(2 * time.Second).Recv()
			*out = append(*out, vtime.Since(t0).String())
		}, want: []string{"2s"}},
		{name: "context cancel propagates to children", body: func(out *[]string) {
			p, cancel := vctx.WithCancel(vctx.Background())
			c, _ := vctx.WithCancel(p)
			done := vmc.NewChan[struct{}](0)
			vmc.Go(func() { c.Done().Recv(); *out = append(*out, fmt.Sprint(c.Err())); done.Close() })
			cancel()
			done.Recv()
		}, want: []string{"context canceled"}},
		{name: "context timeout", body: func(out *[]string) {
			c, cancel := vctx.WithTimeout(vctx.Background(), 3*time.Second)
			defer cancel()
			c.Done().Recv()
			*out = append(*out, fmt.Sprint(c.Err(), " ", time.Duration(vmc.NowNS())))
		}, want: []string{"context deadline exceeded 3s"}},
		{name: "unbuffered send blocks until received", body: func(out *[]string) {
			c := vmc.NewChan[int](0)
			vmc.Go(func() { c.Send(1); *out = append(*out, "sent") })
			vmc.Step("x")
			*out = append(*out, "before")
			c.Recv()
			vmc.Step("y")
		}, want: []string{"before,sent"}},
		{name: "atomic add is a scheduling point, not a lost update", body: func(out *[]string) {
			var wg vsync.WaitGroup
			var x vatomic.Int32
			y := int32(0)
			for i := 0; i < 2; i++ {
				wg.Add(1)
				vmc.Go(func() {
					x.Add(1)
					v := vatomic.LoadInt32(&y) // load ; store is not atomic as a whole
					vatomic.StoreInt32(&y, v+1)
					wg.Done()
				})
			}
			wg.Wait()
			*out = append(*out, fmt.Sprint(x.Load(), y))
		}, want: []string{"2 1", "2 2"}},
		{name: "atomic compare-and-swap elects one", body: func(out *[]string) {
			var wg vsync.WaitGroup
			var flag vatomic.Bool
			winners := 0
			for i := 0; i < 3; i++ {
				wg.Add(1)
				vmc.Go(func() {
					if flag.CompareAndSwap(false, true) {
						winners++
					}
					wg.Done()
				})
			}
			wg.Wait()
			*out = append(*out, fmt.Sprint(winners))
		}, want: []string{"1"}},
		{name: "cond: wait sees the signalled state, no lost wake-up", body: func(out *[]string) {
			var mu vsync.Mutex
			c := vsync.NewCond(&mu)
			ready := false
			done := vmc.NewChan[struct{}](0)
			vmc.Go(func() {
				mu.Lock()
				for !ready {
					c.Wait()
				}
				mu.Unlock()
				*out = append(*out, "woken")
				done.Send(struct{}{})
			})
			mu.Lock()
			ready = true
			mu.Unlock()
			c.Signal()
			done.Recv()
		}, want: []string{"woken"}},
		{name: "cond: broadcast wakes every waiter", body: func(out *[]string) {
			var mu vsync.Mutex
			c := vsync.NewCond(&mu)
			gen := 0
			var wg vsync.WaitGroup
			waiting := 0
			for i := 0; i < 2; i++ {
				wg.Add(1)
				vmc.Go(func() {
					mu.Lock()
					waiting++
					for gen == 0 {
						c.Wait()
					}
					mu.Unlock()
					wg.Done()
				})
			}
			vmc.Await("both waiting or not", func() bool { return true })
			mu.Lock()
			gen = 1
			mu.Unlock()
			c.Broadcast()
			wg.Wait()
			*out = append(*out, "all")
		}, want: []string{"all"}},
		{name: "pool hands back what was put, or makes a new one", body: func(out *[]string) {
			p := vsync.Pool{New: func() any { return new(int) }}
			a := p.Get().(*int)
			*a = 7
			p.Put(a)
			b := p.Get().(*int)
			c := p.Get().(*int)
			*out = append(*out, fmt.Sprint(*b, *c, a == b, b == c))
		}, want: []string{"7 0 true false"}},
		{name: "context values and causes", body: func(out *[]string) {
			type k struct{}
			root, cancel := vctx.WithCancelCause(vctx.Background())
			c1 := vctx.WithValue(root, k{}, "v")
			c2, cancel2 := vctx.WithTimeout(c1, time.Second)
			defer cancel2()
			*out = append(*out, fmt.Sprint(c2.Value(k{}), c2.Value("other")))
			cancel(fmt.Errorf("why"))
			c2.Done().Recv()
			*out = append(*out, fmt.Sprint(c2.Err(), vctx.Cause(c2)))
			*out = append(*out, fmt.Sprint(vctx.WithoutCancel(c2).Err(), vctx.WithoutCancel(c2).Value(k{})))
		}, want: []string{"v<nil>,context canceled why,<nil>v"}},
		{name: "map order: ids given at insertion, any key kind", body: func(out *[]string) {
			type obj struct{ n int }
			type key struct {
				p  *obj
				id [2]byte
				ok bool
			}
			mk := func(n int) *obj { var o obj; o.n = n; return &o } // neither &T{} nor new(T)
			m := map[key]int{}
			for i := 3; i >= 1; i-- {
				m[vmc.RegKey(key{mk(i), [2]byte{byte(i), 0}, i%2 == 0})] = i
			}
			var order []string
			for _, k := range vmc.SortedKeys(m) {
				order = append(order, fmt.Sprint(k.p.n))
			}
			f := map[float64]bool{2.5: true, -1: true}
			*out = append(*out, strings.Join(order, ""), fmt.Sprint(len(vmc.SortedKeys(f))))
		}, want: []string{"321,2"}},
		{name: "context.AfterFunc: stop ends the helper, cancel runs the function", body: func(out *[]string) {
			c, cancel := vctx.WithCancel(vctx.Background())
			stop := vctx.AfterFunc(c, func() { *out = append(*out, "ran") })
			*out = append(*out, fmt.Sprint(stop()))
			cancel()
			c2, cancel2 := vctx.WithCancel(vctx.Background())
			done := vmc.NewChan[struct{}](0)
			vctx.AfterFunc(c2, func() { *out = append(*out, "ran2"); done.Send(struct{}{}) })
			cancel2()
			done.Recv()
		}, want: []string{"true,ran2"}},
		{name: "rwmutex: two readers at once, writer excluded", body: func(out *[]string) {
			var rw vsync.RWMutex
			both := vmc.NewChan[struct{}](0)
			var wg vsync.WaitGroup
			x := 0
			for i := 0; i < 2; i++ {
				wg.Add(1)
				vmc.Go(func() {
					rw.RLock()
					both.Send(struct{}{}) // both readers hold the lock while the main thread collects
					rw.RUnlock()
					wg.Done()
				})
			}
			both.Recv()
			both.Recv()
			wg.Wait()
			rw.Lock()
			x++
			rw.Unlock()
			*out = append(*out, fmt.Sprint(x))
		}, want: []string{"1"}},
		{name: "AfterFunc and Once", body: func(out *[]string) {
			var once vsync.Once
			done := vmc.NewChan[struct{}](0)
			f := func() { once.Do(func() { *out = append(*out, "once") }); done.Send(struct{}{}) }
			vtime.AfterFunc(time.Second, f)
			vtime.AfterFunc(time.Second, f)
			done.Recv()
			done.Recv()
		}, want: []string{"once"}},
	}
	failed := 0
	for _, l := range ls {
		got, bad := explore(l)
		var g []string
		for k := range got {
			g = append(g, k)
		}
		sort.Strings(g)
		w := append([]string{}, l.want...)
		sort.Strings(w)
		if bad != "" || fmt.Sprint(g) != fmt.Sprint(w) {
			failed++
			fmt.Printf("LITMUS FAILED %-45s outcomes %q want %q %s\n", l.name, g, w, bad)
		} else {
			fmt.Printf("litmus ok     %-45s outcomes %q\n", l.name, g)
		}
	}
	if failed > 0 {
		os.Exit(2)
	}
}
