#!/bin/bash
exec "$(dirname "$0")/../../bin/build-vmc" checks/vmctest "$1"
