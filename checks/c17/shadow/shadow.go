// Package shadow defines user message structs whose TYPE NAMES equal those of shipped messages
// but whose definitions differ (C17: a codec belongs to a Go type, not to a name).
package shadow

// MessageParamSet is valid and unlike common.MessageParamSet (initialised before any shipped dialect).
type MessageParamSet struct {
	Value uint32
	Index int16
}

// GetID implements message.Message.
func (*MessageParamSet) GetID() uint32 { return 23 }

// MessageHeartbeat is valid and unlike the standard heartbeat (initialised after the shipped dialects).
type MessageHeartbeat struct {
	A uint16
	B uint8
	C [3]int8
}

// GetID implements message.Message.
func (*MessageHeartbeat) GetID() uint32 { return 0 }

// MessagePing is malformed (field type int).
type MessagePing struct{ A int }

// GetID implements message.Message.
func (*MessagePing) GetID() uint32 { return 4 }
