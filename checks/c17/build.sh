#!/bin/bash
exec "$(dirname "$0")/../../bin/build-enumreg" checks/c17 "$1"
