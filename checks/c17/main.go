// C17: shipped dialects are well-formed and mutually consistent. Engine A: complete
// enumeration of the 19 packages (all messages, all 2^24 id lookups in thorough), type
// identity of included messages, equality of enum constants across packages (type-checker
// evaluated), golden CRC_EXTRA, and rejection of malformed user dialects at Initialize.
package main

import (
	"encoding/json"
	"fmt"
	"reflect"
	"strings"

	"github.com/bluenviron/gomavlib/v3/pkg/dialect"
	"github.com/bluenviron/gomavlib/v3/pkg/dialects/common"
	"github.com/bluenviron/gomavlib/v3/pkg/message"

	"verif/bx"
	"verif/checks/c17/shadow"
	"verif/gen/enumreg"
	"verif/gm"
	"verif/ref"
)

// ---- malformed user structs

type NoPrefixHeartbeat struct{ A uint8 }

func (*NoPrefixHeartbeat) GetID() uint32 { return 900 }

type MessageBadFieldType struct{ A int }

func (*MessageBadFieldType) GetID() uint32 { return 901 }

type MessageBadFieldBool struct {
	A uint8
	B bool
}

func (*MessageBadFieldBool) GetID() uint32 { return 902 }

type MessageEnumNotUint64 struct {
	A uint32 `mavenum:"uint8"`
}

func (*MessageEnumNotUint64) GetID() uint32 { return 903 }

type MessageBadMavenum struct {
	A common.MAV_TYPE `mavenum:"float32"`
}

func (*MessageBadMavenum) GetID() uint32 { return 904 }

type MessageBadMavenumName struct {
	A common.MAV_TYPE `mavenum:"uint7"`
}

func (*MessageBadMavenumName) GetID() uint32 { return 905 }

type MessageBadMavlen struct {
	A string `mavlen:"abc"`
}

func (*MessageBadMavlen) GetID() uint32 { return 906 }

type MessageSliceField struct{ A []uint8 }

func (*MessageSliceField) GetID() uint32 { return 907 }

// named field types without the mavenum tag (the codec only knows the predeclared types)
type MessageNamedNoTag struct {
	A uint8
	B common.MAV_TYPE
}

func (*MessageNamedNoTag) GetID() uint32 { return 908 }

type myU8 uint8
type myF32 float32
type myStr string

type MessageNamedU8 struct{ A myU8 }

func (*MessageNamedU8) GetID() uint32 { return 909 }

type MessageNamedF32Array struct {
	A uint16
	B [2]myF32
}

func (*MessageNamedF32Array) GetID() uint32 { return 910 }

type MessageNamedString struct {
	A myStr `mavlen:"4"`
}

func (*MessageNamedString) GetID() uint32 { return 911 }

type MessagePointerField struct{ A *uint8 }

func (*MessagePointerField) GetID() uint32 { return 912 }

type MessageStructField struct{ A struct{ X uint8 } }

func (*MessageStructField) GetID() uint32 { return 913 }

type MessageEnumBadWidth struct {
	A common.MAV_TYPE `mavenum:"int16"`
}

func (*MessageEnumBadWidth) GetID() uint32 { return 914 }

var malformed = []message.Message{&MessageNamedNoTag{}, &MessageNamedU8{}, &MessageNamedF32Array{}, &MessageNamedString{},
	&MessagePointerField{}, &MessageStructField{}, &MessageEnumBadWidth{}, &NoPrefixHeartbeat{}, &MessageBadFieldType{}, &MessageBadFieldBool{}, &MessageEnumNotUint64{},
	&MessageBadMavenum{}, &MessageBadMavenumName{}, &MessageBadMavlen{}, &MessageSliceField{}}

// MessageDupOfPing has the id of PING.
type MessageDupOfPing struct{ A uint8 }

func (*MessageDupOfPing) GetID() uint32 { return 4 }

var pool = []message.Message{&common.MessageHeartbeat{}, &common.MessageSysStatus{}, &common.MessagePing{},
	&common.MessageParamSet{}, &common.MessageProtocolVersion{}, &common.MessageRequestDataStream{}}

type ucase struct {
	Subset int    `json:"subset"` // bitmask over the pool
	Inject string `json:"inject"` // "" | dup:<pool index> | bad:<malformed index>
	At     int    `json:"at"`     // position of the injected message
}

func evalUser(c ucase) string {
	var msgs []message.Message
	for i, m := range pool {
		if c.Subset&(1<<uint(i)) != 0 {
			msgs = append(msgs, m)
		}
	}
	injected := false
	var inj message.Message
	if strings.HasPrefix(c.Inject, "dup:") {
		var k int
		fmt.Sscanf(c.Inject, "dup:%d", &k)
		if c.Subset&(1<<uint(k)) != 0 {
			inj, injected = pool[k], true
			if k == 2 {
				inj = &MessageDupOfPing{}
			}
		}
	} else if strings.HasPrefix(c.Inject, "bad:") {
		var k int
		fmt.Sscanf(c.Inject, "bad:%d", &k)
		inj, injected = malformed[k], true
	}
	if injected {
		at := c.At
		if at > len(msgs) {
			at = len(msgs)
		}
		msgs = append(msgs[:at], append([]message.Message{inj}, msgs[at:]...)...)
	}
	rw := &dialect.ReadWriter{Dialect: &dialect.Dialect{Version: 3, Messages: msgs}}
	var err error
	if p := bx.Catch(func() { err = rw.Initialize() }); p != "" {
		return p
	}
	if injected && err == nil {
		if strings.HasPrefix(c.Inject, "dup:") {
			return fmt.Sprintf("dialect with %s at position %d accepted by Initialize", c.Inject, c.At)
		}
		// "rejected when it is initialized, not at first use": a struct of the pool that the
		// library accepts must then be usable - a probe value survives Write / Read unchanged,
		// in both versions, without a panic. (Which structs count as malformed is the library's
		// decision; accepting one and failing on it later is what the statement excludes.)
		if d := firstUse(rw, inj); d != "" {
			return fmt.Sprintf("dialect with %s at position %d accepted by Initialize, but the struct is not usable: %s", c.Inject, c.At, d)
		}
	}
	if !injected && err != nil {
		return "valid user dialect rejected: " + err.Error()
	}
	return ""
}

// firstUse encodes and decodes a probe value of m's type (every numeric field and array element
// 1, every string "a") through the dialect's codec.
func firstUse(rw *dialect.ReadWriter, m message.Message) (problem string) {
	defer func() {
		if e := recover(); e != nil {
			problem = fmt.Sprintf("panic at first use: %v", e)
		}
	}()
	mrw := rw.GetMessage(m.GetID())
	if mrw == nil {
		return "no codec for its id"
	}
	probe := reflect.New(reflect.TypeOf(m).Elem())
	var fill func(v reflect.Value) bool
	fill = func(v reflect.Value) bool {
		switch v.Kind() {
		case reflect.Int, reflect.Int8, reflect.Int16, reflect.Int32, reflect.Int64:
			v.SetInt(1)
		case reflect.Uint, reflect.Uint8, reflect.Uint16, reflect.Uint32, reflect.Uint64:
			v.SetUint(1)
		case reflect.Float32, reflect.Float64:
			v.SetFloat(1)
		case reflect.String:
			v.SetString("a")
		case reflect.Array:
			for i := 0; i < v.Len(); i++ {
				if !fill(v.Index(i)) {
					return false
				}
			}
		default:
			return false // a kind no MAVLink field can have: nothing sensible to put there
		}
		return true
	}
	ev := probe.Elem()
	for i := 0; i < ev.NumField(); i++ {
		if !ev.Field(i).CanSet() || !fill(ev.Field(i)) {
			return fmt.Sprintf("field %s has a kind no MAVLink field can carry, yet the struct was accepted", ev.Type().Field(i).Name)
		}
	}
	for _, v2 := range []bool{false, true} {
		if !v2 && m.GetID() > 255 {
			continue
		}
		raw := mrw.Write(probe.Interface().(message.Message), v2)
		if raw == nil {
			return "Write returned nil"
		}
		back, err := mrw.Read(&message.MessageRaw{ID: raw.ID, Payload: append([]byte{}, raw.Payload...)}, v2)
		if err != nil {
			return "Read of its own encoding failed: " + err.Error()
		}
		if !reflect.DeepEqual(back, probe.Interface()) {
			return fmt.Sprintf("probe %+v comes back as %+v (v2=%v)", probe.Elem().Interface(), reflect.ValueOf(back).Elem().Interface(), v2)
		}
	}
	return ""
}

func main() {
	r := bx.Start("C17", "exploration")
	r.Replayer = func(class string, raw json.RawMessage) (bool, string) {
		if class == "user_dialect" {
			var c ucase
			json.Unmarshal(raw, &c)
			d := evalUser(c)
			return d != "", d
		}
		return true, "structural finding (re-run the check)"
	}
	if r.ReplayMode() {
		return
	}
	var evals bx.Counter
	var distinct bx.Distinct
	golden := map[uint32]ref.GoldenEntry{}
	for _, e := range ref.GoldenCRC {
		golden[e.ID] = e
	}
	failS := func(class, key, d string) { r.Fail(class, key, map[string]string{"key": key}, d) }

	// ---- same type name, other definition: a codec belongs to the Go type. One shadow type is
	// initialised before any shipped dialect, the others after all of them (see below).
	shadowCheck := func(m message.Message, wantOK bool) {
		evals.Add(1)
		name := fmt.Sprintf("%T", m)
		rw := &dialect.ReadWriter{Dialect: &dialect.Dialect{Version: 3, Messages: []message.Message{m}}}
		var err error
		if p := bx.Catch(func() { err = rw.Initialize() }); p != "" {
			failS("shadow", name, p)
			return
		}
		if !wantOK {
			if err == nil {
				failS("shadow", name, "malformed struct "+name+" (it shares its type name with a shipped message) accepted by Initialize")
			}
			return
		}
		if err != nil {
			failS("shadow", name, "valid user struct "+name+" (it shares its type name with a shipped message) rejected: "+err.Error())
			return
		}
		def, derr := ref.DefFromStruct(reflect.TypeOf(m).Elem(), m.GetID())
		if derr != nil {
			bx.Fatalf("%v", derr)
		}
		mrw := rw.GetMessage(m.GetID())
		if mrw == nil {
			failS("shadow", name, "no codec for id of "+name)
			return
		}
		if reflect.TypeOf(mrw.Message) != reflect.TypeOf(m) {
			failS("shadow", name, fmt.Sprintf("the codec of %s decodes into %T", name, mrw.Message))
		}
		if got, want := mrw.CRCExtra(), def.CRCExtra(); got != want {
			failS("shadow", name, fmt.Sprintf("CRC_EXTRA of %s is %d, its definition gives %d (the shipped message of the same name has another one)", name, got, want))
		}
	}
	shadowCheck(&shadow.MessageParamSet{}, true)

	// ---- per dialect: initialise, ids unique, lookups, sizes, golden
	bx.ParDo(len(gm.Dialects), func(di int) {
		nd := gm.Dialects[di]
		rw := &dialect.ReadWriter{Dialect: nd.D}
		if err := rw.Initialize(); err != nil {
			failS("dialect", nd.Name, "Initialize: "+err.Error())
			return
		}
		byID := map[uint32]message.Message{}
		for _, m := range nd.D.Messages {
			if prev, dup := byID[m.GetID()]; dup {
				failS("dialect", fmt.Sprintf("%s id %d", nd.Name, m.GetID()), fmt.Sprintf("messages %T and %T share id %d", prev, m, m.GetID()))
			}
			byID[m.GetID()] = m
			evals.Add(1)
			distinct.AddString(nd.Name + fmt.Sprint(m.GetID()))
			def, err := ref.DefFromStruct(reflect.TypeOf(m), m.GetID())
			if err != nil {
				failS("dialect", fmt.Sprintf("%s.%T", nd.Name, m), err.Error())
				continue
			}
			base, ext := def.Sizes()
			if ext > 255 {
				failS("dialect", fmt.Sprintf("%s.%T", nd.Name, m), fmt.Sprintf("payload size %d exceeds the 255 byte limit", ext))
			}
			mrw := rw.GetMessage(m.GetID())
			if mrw == nil || reflect.TypeOf(mrw.Message) != reflect.TypeOf(m) {
				failS("dialect", fmt.Sprintf("%s.%T", nd.Name, m), "GetMessage does not return the codec of the listed message")
				continue
			}
			// sizes as the implementation sees them (v1 length of an all-ones message / acceptance)
			if _, err := mrw.Read(&message.MessageRaw{ID: m.GetID(), Payload: make([]byte, base)}, false); err != nil {
				failS("dialect", fmt.Sprintf("%s.%T", nd.Name, m), fmt.Sprintf("v1 payload of the spec base size %d refused: %v", base, err))
			}
			if mrw.CRCExtra() != def.CRCExtra() {
				failS("dialect", fmt.Sprintf("%s.%T", nd.Name, m), fmt.Sprintf("CRC_EXTRA %d, spec %d", mrw.CRCExtra(), def.CRCExtra()))
			}
			if g, ok := golden[m.GetID()]; ok && g.Name == def.Name && mrw.CRCExtra() != g.CRC {
				failS("golden", fmt.Sprintf("%s.%T", nd.Name, m), fmt.Sprintf("%s: CRC_EXTRA %d, c_library_v2 publishes %d", def.Name, mrw.CRCExtra(), g.CRC))
			}
		}
		// lookups
		check := func(id uint32) {
			evals.Add(1)
			mrw := rw.GetMessage(id)
			m, listed := byID[id]
			if listed != (mrw != nil) {
				failS("lookup", fmt.Sprintf("%s id %d", nd.Name, id), fmt.Sprintf("GetMessage(%d): listed=%v found=%v", id, listed, mrw != nil))
				return
			}
			if listed && (mrw.Message.GetID() != id || reflect.TypeOf(mrw.Message) != reflect.TypeOf(m)) {
				failS("lookup", fmt.Sprintf("%s id %d", nd.Name, id), "GetMessage returns the codec of another message")
			}
		}
		if r.Thorough() {
			for id := uint32(0); id < 1<<24; id++ {
				check(id)
			}
		} else {
			for id := uint32(0); id < 70000; id++ {
				check(id)
			}
			for id := range byID {
				check(id - 1)
				check(id + 1)
				check(id | 1<<23)
				check(id + 1<<16)
			}
			for b := 0; b < 24; b++ {
				check(1 << uint(b))
				check(1<<24 - 1 - 1<<uint(b))
			}
		}
		check(1 << 24)
		check(^uint32(0))
	})

	// ---- type identity of included messages
	// The group comments of the generated dialect.go files are only a hint: a comment counts as
	// an include group when it is exactly the name of a shipped dialect package; any other
	// wording leaves the entry to the comment-independent (name, id) comparison below.
	knownPkg := map[string]bool{}
	for _, nd := range gm.Dialects {
		knownPkg[nd.Name] = true
	}
	for i := range enumreg.Entries {
		if !knownPkg[enumreg.Entries[i].Group] {
			enumreg.Entries[i].Group = ""
		}
	}
	groupsSeen := 0
	for _, e := range enumreg.Entries {
		t := reflect.TypeOf(e.Msg).Elem()
		pkg := t.PkgPath()[strings.LastIndex(t.PkgPath(), "/")+1:]
		evals.Add(1)
		if e.Group == "" {
			continue // no group comment: decided by the (name, id) comparison below
		}
		groupsSeen++
		if pkg != e.Group {
			failS("identity", e.Dialect+"."+t.Name(), fmt.Sprintf("dialect %s lists %s under group %q but its Go type is declared in package %s: not the same type as %s.%s", e.Dialect, t.Name(), e.Group, pkg, e.Group, t.Name()))
		}
	}
	// independent of the comments: a message with the same name and id in two dialects is the
	// very same Go type
	type nk struct {
		name string
		id   uint32
	}
	nameType := map[nk]reflect.Type{}
	nameWhere := map[nk]string{}
	for _, nd := range gm.Dialects {
		for _, m := range nd.D.Messages {
			t := reflect.TypeOf(m)
			k := nk{t.Elem().Name(), m.GetID()}
			evals.Add(1)
			if prev, ok := nameType[k]; ok && prev != t {
				failS("identity", fmt.Sprintf("%s id %d", k.name, k.id), fmt.Sprintf("message %s (id %d) is Go type %v in dialect %s and %v in dialect %s: not the same type", k.name, k.id, prev, nameWhere[k], t, nd.Name))
			} else if !ok {
				nameType[k], nameWhere[k] = t, nd.Name
			}
		}
	}
	// the same id inside one defining package maps to one type everywhere
	type gk struct {
		group string
		id    uint32
	}
	idType := map[gk]reflect.Type{}
	for _, e := range enumreg.Entries {
		if e.Group == "" {
			continue
		}
		k := gk{e.Group, e.Msg.GetID()}
		t := reflect.TypeOf(e.Msg)
		if prev, ok := idType[k]; ok && prev != t {
			failS("identity", fmt.Sprint(k), fmt.Sprintf("id %d of group %s is %v in one dialect and %v in another", k.id, k.group, prev, t))
		}
		idType[k] = t
	}

	// ---- enum constants: equal (type name, constant name) => equal value across packages
	type ck struct{ typ, name string }
	val := map[ck]enumreg.PkgConst{}
	for _, c := range enumreg.Consts {
		evals.Add(1)
		k := ck{c.Type, c.Name}
		if prev, ok := val[k]; ok {
			if prev.Value != c.Value {
				failS("constants", c.Type+"."+c.Name, fmt.Sprintf("constant %s of enum %s is %d in package %s and %d in package %s", c.Name, c.Type, prev.Value, prev.Pkg, c.Value, c.Pkg))
			}
		} else {
			val[k] = c
		}
	}
	// and by name alone (a constant name belongs to one enum)
	byName := map[string]enumreg.PkgConst{}
	for _, c := range enumreg.Consts {
		if prev, ok := byName[c.Name]; ok && prev.Value != c.Value {
			failS("constants", c.Name, fmt.Sprintf("constant %s is %d in %s and %d in %s", c.Name, prev.Value, prev.Pkg, c.Value, c.Pkg))
		}
		byName[c.Name] = c
	}
	if len(enumreg.Consts) < 20000 {
		bx.Fatalf("only %d constants scanned", len(enumreg.Consts))
	}

	shadowCheck(&shadow.MessageHeartbeat{}, true)
	shadowCheck(&shadow.MessagePing{}, false)

	// ---- user dialects
	var ucases []ucase
	for sub := 0; sub < 1<<uint(len(pool)); sub++ {
		if sub != 0 { // (whether a dialect without messages is valid is not stated anywhere)
			ucases = append(ucases, ucase{Subset: sub})
		}
		n := 0
		for i := range pool {
			if sub&(1<<uint(i)) != 0 {
				n++
			}
		}
		for at := 0; at <= n; at++ {
			for k := range pool {
				if sub&(1<<uint(k)) != 0 {
					ucases = append(ucases, ucase{Subset: sub, Inject: fmt.Sprintf("dup:%d", k), At: at})
				}
			}
			for k := range malformed {
				ucases = append(ucases, ucase{Subset: sub, Inject: fmt.Sprintf("bad:%d", k), At: at})
			}
		}
	}
	bx.ParDo(len(ucases), func(i int) {
		evals.Add(1)
		if d := evalUser(ucases[i]); d != "" {
			r.Fail("user_dialect", fmt.Sprintf("%b %s@%d", ucases[i].Subset, ucases[i].Inject, ucases[i].At), ucases[i], d)
		}
		if i%3000 == 0 {
			r.Sample(ucases[i])
		}
	})
	r.Assumption = []string{
		"type identity of included messages is decided by (name, id) across dialects; the registry lists the messages of each dialect as written in its Messages list (go/ast), comments are not used",
		"golden CRC_EXTRA: 222 double-sourced standard messages",
	}
	r.Finish(map[string]any{
		"evaluations":         evals.N(),
		"distinct_nontrivial": distinct.N(),
		"rule":                "complete enumeration of 19 dialect packages: per message (id uniqueness, codec lookup, size limit, CRC_EXTRA vs spec and golden), id lookups (0..69999 + neighbours quick / all 2^24 thorough), type identity for every listed message (same name and id = same Go type), all enum constants across packages, all subsets of a 6-message pool x injected duplicate / malformed struct at every position; distinct = (dialect, message) pairs",
		"dialect_entries":     len(enumreg.Entries),
		"constants":           len(enumreg.Consts),
		"user_dialects":       len(ucases),
	})
}
