// C20: telemetry logs. Engine A, model checking of the log as a write history: all entry
// sequences up to a bound, every byte prefix (crash point) of every log, a write fault at
// every underlying Write call, unencodable entries at every position.
package main

import (
	"bytes"
	"encoding/json"
	"errors"
	"fmt"
	"reflect"
	"time"

	"github.com/bluenviron/gomavlib/v3/pkg/dialect"
	"github.com/bluenviron/gomavlib/v3/pkg/dialects/common"
	"github.com/bluenviron/gomavlib/v3/pkg/frame"
	"github.com/bluenviron/gomavlib/v3/pkg/message"
	"github.com/bluenviron/gomavlib/v3/pkg/tlog"

	"verif/bx"
	"verif/gm"
	"verif/ref"
)

var drw *dialect.ReadWriter
var sigKey = bytes.Repeat([]byte{7}, 32)

var times = []time.Time{
	time.Unix(0, 0).UTC(),
	time.Unix(0, -1000).UTC(),
	time.Unix(0, -1500).UTC(),
	time.Unix(0, 999).UTC(),
	time.Unix(0, 1000).UTC(),
	time.Date(2026, 9, 27, 12, 34, 56, 789012345, time.UTC),
	time.Date(2262, 4, 11, 23, 47, 16, 854775807, time.UTC),
	time.Date(1900, 1, 1, 0, 0, 0, 1, time.UTC),
	time.Date(9999, 12, 31, 23, 59, 59, 999999999, time.UTC),
}

// frame kinds
const (
	fV1Raw = iota
	fV2Raw
	fV2Signed
	fV1Decoded
	fV2Decoded
	fBig
	fBigSigned // signed v2, 255-byte payload: the longest possible frame (280 bytes)
	fSigned243 // signed v2, 243-byte payload
	// unencodable
	fBadV1BigID
	fBadOutside
	fBadNil
	nFrames
)

var frameNames = []string{"v1raw", "v2raw", "v2signed", "v1decoded", "v2decoded", "v2raw255", "v2signed255", "v2signed243", "BAD:v1id300", "BAD:outside-dialect", "BAD:nil-message"}

// mkFrame builds the gomavlib frame and its reference wire form (nil when unencodable).
func mkFrame(kind int, withDialect bool) (frame.Frame, []byte) {
	hb := &common.MessageHeartbeat{Type: 2, Autopilot: 3, CustomMode: 0x01020304, MavlinkVersion: 3}
	hbPayload := []byte{4, 3, 2, 1, 2, 3, 0, 0, 3}
	switch kind {
	case fV1Raw:
		f := &ref.Frame{Seq: 1, Sys: 2, Comp: 3, ID: 201, Payload: []byte{9, 8, 7}, Checksum: 0x1234}
		return gm.FromRef(f), f.Bytes()
	case fV2Raw:
		f := &ref.Frame{V2: true, Seq: 1, Sys: 2, Comp: 3, ID: 70000, Payload: []byte{0xFD, 0xFE, 0}, Checksum: 0xFDFE}
		return gm.FromRef(f), f.Bytes()
	case fV2Signed:
		f := &ref.Frame{V2: true, Incompat: 1, Seq: 4, Sys: 5, Comp: 6, ID: 70001, Payload: []byte{1}, Checksum: 0x4321, LinkID: 2, Timestamp: 777}
		f.Sig = f.Sign(sigKey)
		return gm.FromRef(f), f.Bytes()
	case fV1Decoded:
		f := &ref.Frame{Seq: 7, Sys: 8, Comp: 9, ID: 0, Payload: hbPayload}
		f.Checksum = f.ComputeChecksum(50)
		return &frame.V1Frame{SequenceNumber: 7, SystemID: 8, ComponentID: 9, Message: hb, Checksum: f.Checksum}, f.Bytes()
	case fV2Decoded:
		f := &ref.Frame{V2: true, Seq: 7, Sys: 8, Comp: 9, ID: 0, Payload: hbPayload}
		f.Checksum = f.ComputeChecksum(50)
		return &frame.V2Frame{SequenceNumber: 7, SystemID: 8, ComponentID: 9, Message: hb, Checksum: f.Checksum}, f.Bytes()
	case fBig:
		p := make([]byte, 255)
		for i := range p {
			p[i] = byte(255 - i)
		}
		f := &ref.Frame{V2: true, Seq: 1, Sys: 2, Comp: 3, ID: 70002, Payload: p, Checksum: 1}
		return gm.FromRef(f), f.Bytes()
	case fBigSigned, fSigned243:
		n := 255
		if kind == fSigned243 {
			n = 243
		}
		p := make([]byte, n)
		for i := range p {
			p[i] = byte(i*7 + 1)
		}
		f := &ref.Frame{V2: true, Incompat: 1, Seq: 9, Sys: 2, Comp: 3, ID: 70003, Payload: p, Checksum: 0xABCD, LinkID: 7, Timestamp: 1 << 40}
		f.Sig = f.Sign(sigKey)
		return gm.FromRef(f), f.Bytes()
	case fBadV1BigID:
		return &frame.V1Frame{Message: &message.MessageRaw{ID: 300, Payload: []byte{1}}}, nil
	case fBadOutside:
		return &frame.V2Frame{Message: &common.MessageSysStatus{}}, nil // not in the heartbeat-only dialect
	case fBadNil:
		return &frame.V2Frame{}, nil
	}
	return nil, nil
}

func encodable(kind int, withDialect bool) bool {
	if kind >= fBadV1BigID {
		return false
	}
	if (kind == fV1Decoded || kind == fV2Decoded) && !withDialect {
		return false // a decoded message cannot be encoded without a dialect
	}
	return true
}

type ent struct {
	F int `json:"f"`
	T int `json:"t"`
}
type lcase struct {
	Dialect bool  `json:"dialect"`
	Entries []ent `json:"entries"`
	FailAt  int   `json:"fail_at"` // underlying Write call (1-based) that fails; 0 none
	Prefix  bool  `json:"prefixes"`
}

type sink struct {
	buf    bytes.Buffer
	calls  int
	failAt int
}

var errInjected = errors.New("injected write failure")

func (s *sink) Write(p []byte) (int, error) {
	s.calls++
	if s.failAt != 0 && s.calls == s.failAt {
		return 0, errInjected
	}
	return s.buf.Write(p)
}

func floorMicro(t time.Time) int64 {
	// arbitrary precision not needed: seconds*1e6 + floor(nsec/1000), nsec in [0,1e9)
	return t.Unix()*1000000 + int64(t.Nanosecond())/1000
}

func be64(v int64) []byte {
	b := make([]byte, 8)
	for i := 0; i < 8; i++ {
		b[i] = byte(uint64(v) >> (56 - 8*uint(i)))
	}
	return b
}

func sameFrame(got frame.Frame, kind int, withDialect bool) string {
	want, wire := mkFrame(kind, withDialect)
	_ = want
	rf, ok := gm.ParseExactly(wire)
	if !ok {
		return "internal"
	}
	g, raw := gm.ToRef(got)
	decodedExpected := withDialect && rf.ID == 0
	if decodedExpected {
		if raw {
			return "message of the dialect read back undecoded"
		}
		hb, ok := got.GetMessage().(*common.MessageHeartbeat)
		if !ok || hb.CustomMode != 0x01020304 || hb.Type != 2 || hb.Autopilot != 3 || hb.MavlinkVersion != 3 {
			return fmt.Sprintf("decoded message differs: %+v", got.GetMessage())
		}
	} else {
		if !raw || !bytes.Equal(g.Payload, rf.Payload) {
			return "payload differs"
		}
	}
	if g.V2 != rf.V2 || g.Seq != rf.Seq || g.Sys != rf.Sys || g.Comp != rf.Comp || g.ID != rf.ID || g.Checksum != rf.Checksum ||
		g.Incompat != rf.Incompat || g.Compat != rf.Compat || g.LinkID != rf.LinkID || g.Timestamp != rf.Timestamp || g.Sig != rf.Sig {
		return fmt.Sprintf("frame read back {%v}, written {%v}", g, rf)
	}
	return ""
}

// evalLog returns problem, transitions (writes + reads).
func evalLog(c *lcase) (string, int) {
	var d *dialect.ReadWriter
	if c.Dialect {
		d = drw
	}
	s := &sink{failAt: c.FailAt}
	w := &tlog.Writer{ByteWriter: s, DialectRW: d}
	if err := w.Initialize(); err != nil {
		return "initialize: " + err.Error(), 0
	}
	n := 0
	var want []byte     // reference file content
	var ends []int      // end offset of each complete entry
	var kept []ent      // entries in the file
	var stored []int64 // their stored microsecond values
	failed := false
	for i, e := range c.Entries {
		fr, wire := mkFrame(e.F, c.Dialect)
		before := s.buf.Len()
		callsBefore := s.calls
		var err error
		if p := bx.Catch(func() { err = w.Write(&tlog.Entry{Time: times[e.T], Frame: fr}) }); p != "" {
			return p, n
		}
		n++
		hitFault := c.FailAt != 0 && callsBefore < c.FailAt && s.calls >= c.FailAt
		if !encodable(e.F, c.Dialect) {
			if err == nil {
				return fmt.Sprintf("entry %d (%s) cannot be encoded but Write returned nil", i, frameNames[e.F]), n
			}
			if s.buf.Len() != before {
				return fmt.Sprintf("entry %d (%s) cannot be encoded (%v) but left %d bytes in the file: % x", i, frameNames[e.F], err, s.buf.Len()-before, s.buf.Bytes()[before:]), n
			}
			continue
		}
		if hitFault {
			if err == nil {
				return fmt.Sprintf("underlying Write call %d failed but Writer.Write of entry %d returned nil", c.FailAt, i), n
			}
			if !errors.Is(err, errInjected) {
				return fmt.Sprintf("write error not reported as the transport's error: %v", err), n
			}
			failed = true
			break
		}
		if err != nil {
			return fmt.Sprintf("entry %d (%s): %v", i, frameNames[e.F], err), n
		}
		// "to the microsecond": the stored value is within one microsecond of the entry time
		// (truncation, the library's choice, or rounding to nearest; nothing else)
		us := floorMicro(times[e.T])
		if off := len(want); len(s.buf.Bytes()) >= off+8 && times[e.T].Nanosecond()%1000 != 0 && bytes.Equal(s.buf.Bytes()[off:off+8], be64(us+1)) {
			us++
		}
		stored = append(stored, us)
		want = append(want, be64(us)...)
		want = append(want, wire...)
		ends = append(ends, len(want))
		kept = append(kept, e)
		if !bytes.Equal(s.buf.Bytes(), want) {
			return fmt.Sprintf("after entry %d the file is\n % x\nexpected 8-byte big-endian microseconds + frame:\n % x", i, s.buf.Bytes(), want), n
		}
	}
	if failed {
		return "", n
	}
	data := append([]byte{}, s.buf.Bytes()...)
	// read back whole log and (optionally) every prefix
	cuts := []int{len(data)}
	if c.Prefix {
		cuts = cuts[:0]
		for k := 0; k <= len(data); k++ {
			cuts = append(cuts, k)
		}
	}
	for _, cut := range cuts {
		complete := 0
		for complete < len(ends) && ends[complete] <= cut {
			complete++
		}
		rd := &tlog.Reader{ByteReader: bytes.NewReader(data[:cut]), DialectRW: d}
		if err := rd.Initialize(); err != nil {
			return err.Error(), n
		}
		for i := 0; ; i++ {
			var en *tlog.Entry
			var err error
			if p := bx.Catch(func() { en, err = rd.Read() }); p != "" {
				return fmt.Sprintf("cut %d: %s", cut, p), n
			}
			n++
			if i < complete {
				if err != nil {
					return fmt.Sprintf("cut at %d of %d: entry %d is complete but Read failed: %v", cut, len(data), i, err), n
				}
				if got, want := en.Time, time.UnixMicro(stored[i]).UTC(); !got.Equal(want) {
					return fmt.Sprintf("entry %d time %v, written %v (to the microsecond %v)", i, got, times[kept[i].T], want), n
				}
				if d := sameFrame(en.Frame, kept[i].F, c.Dialect); d != "" {
					return fmt.Sprintf("cut %d entry %d: %s", cut, i, d), n
				}
				continue
			}
			if err == nil {
				return fmt.Sprintf("cut at %d of %d: only %d entries are complete but Read returned another one: %v %v", cut, len(data), complete, en.Time, en.Frame), n
			}
			if en != nil {
				return "entry returned together with an error", n
			}
			break
		}
	}
	return "", n
}

func main() {
	r := bx.Start("C20", "model_checking")
	var err error
	drw, err = gm.DialectRW(&dialect.Dialect{Version: 3, Messages: []message.Message{&common.MessageHeartbeat{}}})
	if err != nil {
		bx.Fatalf("%v", err)
	}
	r.Replayer = func(class string, raw json.RawMessage) (bool, string) {
		var c lcase
		json.Unmarshal(raw, &c)
		d, _ := evalLog(&c)
		return d != "", d
	}
	if r.ReplayMode() {
		return
	}
	var logs, trans bx.Counter
	var states bx.Distinct
	fail := func(c *lcase, d string) {
		class := "log"
		for _, e := range c.Entries {
			if e.F >= fBadV1BigID {
				class = "unencodable"
			}
		}
		if c.FailAt > 0 {
			class = "write_fault"
		}
		var names []string
		for _, e := range c.Entries {
			names = append(names, fmt.Sprintf("%s@t%d", frameNames[e.F], e.T))
		}
		r.Fail(class, fmt.Sprintf("dialect=%v %v fail=%d", c.Dialect, names, c.FailAt), c, d)
	}
	run := func(c lcase) {
		d, n := evalLog(&c)
		logs.Add(1)
		trans.Add(n)
		if d != "" {
			fail(&c, d)
		}
		for i := range c.Entries {
			states.AddString(fmt.Sprint(c.Dialect, c.Entries[:i+1]))
		}
	}
	var all []ent // encodable entries
	for f := 0; f < fBadV1BigID; f++ {
		for t := range times {
			all = append(all, ent{f, t})
		}
	}
	var reduced []ent
	for f := 0; f < fBadV1BigID; f++ {
		for _, t := range []int{0, 2, 5} {
			reduced = append(reduced, ent{f, t})
		}
	}
	var cases []lcase
	for _, dial := range []bool{false, true} {
		for _, a := range all {
			cases = append(cases, lcase{Dialect: dial, Entries: []ent{a}, Prefix: true})
			for _, b := range all {
				cases = append(cases, lcase{Dialect: dial, Entries: []ent{a, b}, Prefix: true})
			}
		}
		tri := reduced
		if r.Thorough() {
			tri = all
		}
		for _, a := range tri {
			for _, b := range tri {
				for _, c := range tri {
					big := func(f int) bool { return f == fBig || f == fBigSigned || f == fSigned243 }
					cases = append(cases, lcase{Dialect: dial, Entries: []ent{a, b, c}, Prefix: r.Thorough() || !(big(a.F) || big(b.F) || big(c.F))})
				}
			}
		}
		// unencodable entry at each position of a 3-entry history
		for bad := fBadV1BigID; bad < nFrames; bad++ {
			for _, g1 := range reduced {
				for _, g2 := range []ent{{fV2Raw, 5}, {fV1Raw, 1}} {
					for _, bt := range []int{0, 5} {
						b := ent{bad, bt}
						cases = append(cases, lcase{Dialect: dial, Entries: []ent{b, g1, g2}, Prefix: true})
						cases = append(cases, lcase{Dialect: dial, Entries: []ent{g1, b, g2}, Prefix: true})
						cases = append(cases, lcase{Dialect: dial, Entries: []ent{g1, g2, b}, Prefix: true})
						cases = append(cases, lcase{Dialect: dial, Entries: []ent{b, b, g1}, Prefix: true})
					}
				}
			}
		}
		if !dial {
			// decoded messages cannot be encoded without a dialect
			for _, bad := range []int{fV1Decoded, fV2Decoded} {
				for _, g1 := range []ent{{fV2Raw, 5}, {fV1Raw, 1}, {fV2Signed, 2}} {
					b := ent{bad, 5}
					cases = append(cases, lcase{Dialect: false, Entries: []ent{b, g1}, Prefix: true}, lcase{Dialect: false, Entries: []ent{g1, b, g1}, Prefix: true})
				}
			}
		}
		// write fault at the k-th underlying Write
		for _, a := range reduced {
			for _, b := range reduced {
				for k := 1; k <= 7; k++ {
					cases = append(cases, lcase{Dialect: dial, Entries: []ent{a, b, a}, FailAt: k})
				}
			}
		}
	}
	bx.ParDo(len(cases), func(i int) {
		if i%64 == 0 && r.Expired() {
			return
		}
		run(cases[i])
		if i%15000 == 0 {
			r.Sample(cases[i])
		}
	})
	_ = reflect.TypeOf
	r.Assumption = []string{
		"entry alphabet: 6 encodable frame kinds x 9 instants (before/after 1970, sub-microsecond offsets, year 1900/2262/9999), 3 unencodable kinds; sequences up to 3 entries (triples over a reduced alphabet in quick)",
		"a write fault is one failing call of the underlying io.Writer (returning 0 bytes written); short writes without an error are not modelled (io.Writer forbids them)",
	}
	r.Finish(map[string]any{
		"states":                        states.N(),
		"transitions":                   trans.N(),
		"traces_validated_against_impl": logs.N(),
		"evaluations":                   logs.N(),
		"distinct_nontrivial":           states.N(),
		"rule":                          "a state is the entry history written so far; transitions are tlog.Writer.Write calls and tlog.Reader.Read calls on every byte prefix of the resulting file; oracles: file == concatenation of 8-byte big-endian microseconds (within one microsecond of the entry time) + reference frame bytes after every write, read-back equality, exactly the complete entries then an error for every prefix, injected write error returned, unencodable entry leaves no byte",
		"logs":                          logs.N(),
	})
}
