// C04: encode/decode round trip, v2 truncation, extension semantics, totality, no writes to
// the caller's buffer. Engine A over all 408 shipped types (+ user shapes in thorough).
package main

import (
	"bytes"
	"encoding/json"
	"fmt"
	"reflect"

	"github.com/bluenviron/gomavlib/v3/pkg/dialect"
	"github.com/bluenviron/gomavlib/v3/pkg/message"

	"verif/bx"
	"verif/checks/c03/shapes"
	"verif/gm"
	"verif/ref"
)

var all []*gm.MsgType
var byName = map[string]*gm.MsgType{}

func load(withShapes bool) {
	corpus, err := gm.Corpus()
	if err != nil {
		bx.Fatalf("%v", err)
	}
	all = corpus
	if withShapes {
		accepted, _ := gm.AcceptedShapes(shapes.All)
		if len(accepted) == 0 {
			bx.Fatalf("the library refuses every one of the %d user-defined shapes: nothing to check", len(shapes.All))
		}
		drw := &dialect.ReadWriter{Dialect: &dialect.Dialect{Version: 3, Messages: accepted}}
		if err := drw.Initialize(); err != nil {
			bx.Fatalf("user shapes accepted one by one but refused as a dialect: %v", err)
		}
		for _, m := range accepted {
			t := reflect.TypeOf(m).Elem()
			def, _ := ref.DefFromStruct(t, m.GetID())
			all = append(all, &gm.MsgType{Dialect: "shapes", Type: t, ID: m.GetID(), Def: def, RW: drw.GetMessage(m.GetID()), DRW: drw, Proto: m})
		}
	}
	for _, m := range all {
		byName[m.Name()] = m
	}
}

// pcase: a raw payload presented to Read.
type pcase struct {
	Type    string `json:"type"`
	V2      bool   `json:"v2"`
	Payload []byte `json:"payload"`
	Cap     int    `json:"cap"` // capacity of the backing array (>= len)
	// Expect: reference values the decoding must equal (nil = only totality/aliasing)
	Expect []ref.Val `json:"expect,omitempty"`
}

func evalPayload(mt *gm.MsgType, c pcase) string {
	if c.Cap < len(c.Payload) {
		c.Cap = len(c.Payload)
	}
	backing := make([]byte, c.Cap)
	for i := range backing {
		backing[i] = 0xA5
	}
	copy(backing, c.Payload)
	orig := append([]byte{}, backing...)
	raw := &message.MessageRaw{ID: mt.ID, Payload: backing[:len(c.Payload)]}
	var got message.Message
	var err error
	if p := bx.Catch(func() { got, err = mt.RW.Read(raw, c.V2) }); p != "" {
		return p
	}
	if !bytes.Equal(backing, orig) {
		return fmt.Sprintf("Read wrote to the caller's buffer: before % x after % x (len %d cap %d)", orig, backing, len(c.Payload), c.Cap)
	}
	want, ok := mt.Def.Decode(c.Payload, c.V2)
	if !ok {
		if err == nil {
			return fmt.Sprintf("v1 payload of %d bytes accepted, base size is different", len(c.Payload))
		}
		return ""
	}
	if err != nil {
		return fmt.Sprintf("valid payload of %d bytes refused: %v", len(c.Payload), err)
	}
	gv := ref.ValsFromStruct(mt.Def, reflect.ValueOf(got))
	if !ref.EqualVals(gv, want) {
		return fmt.Sprintf("decoded %v, reference decoding %v", gv, want)
	}
	if c.Expect != nil && !ref.EqualVals(gv, c.Expect) {
		return fmt.Sprintf("decoded %v, must equal the value of the untruncated payload %v", gv, c.Expect)
	}
	return ""
}

func fill(n, kind int) []byte {
	b := make([]byte, n)
	for i := range b {
		switch kind {
		case 1:
			b[i] = 0xFF
		case 2:
			b[i] = byte(i + 1)
		case 3:
			if i%2 == 1 {
				b[i] = 0x80
			}
		case 4:
			b[i] = byte(255 - i)
		case 5:
			if i%7 == 0 {
				b[i] = 'A'
			}
		case 6:
			b[i] = 0x7F
		case 7:
			if i < 3 {
				b[i] = 1
			}
		}
	}
	return b
}

func main() {
	r := bx.Start("C04", "exploration")
	load(true)
	r.Replayer = func(class string, raw json.RawMessage) (bool, string) {
		if class == "roundtrip" {
			var c gm.CodecCase
			json.Unmarshal(raw, &c)
			mt := byName[c.Type]
			if mt == nil {
				return false, ""
			}
			var d string
			if p := bx.Catch(func() { d = gm.EvalCodec(mt, c.Vals, c.V2) }); p != "" {
				d = p
			}
			return d != "", d
		}
		var c pcase
		json.Unmarshal(raw, &c)
		mt := byName[c.Type]
		if mt == nil {
			return false, ""
		}
		d := evalPayload(mt, c)
		return d != "", d
	}
	if r.ReplayMode() {
		return
	}
	var evals bx.Counter
	var distinct bx.Distinct
	maxLen := 255 // the statement quantifies over payloads of 0-255 bytes (a length byte cannot say more)
	bx.ParDo(len(all), func(i int) {
		mt := all[i]
		shape := mt.Dialect == "shapes"
		if shape && !r.Thorough() && i%4 != 0 {
			return
		}
		if r.Expired() {
			return
		}
		failP := func(class string, c pcase, d string) {
			r.Fail(class, fmt.Sprintf("%s v2=%v len=%d cap=%d %x", c.Type, c.V2, len(c.Payload), c.Cap, c.Payload), c, d)
		}
		base, ext := mt.Def.Sizes()
		// 1. value round trips: whole-message assignments (zero, all ones, counting, signalling NaNs / sign bit only, infinities / negative zero / largest positive) and, per
		// string field, every string; (per-element sweeps are C03's)
		for _, v2 := range []bool{false, true} {
			for bk := 0; bk < 5; bk++ {
				vals := gm.BaseVals(mt.Def, bk)
				evals.Add(1)
				var d string
				if p := bx.Catch(func() { d = gm.EvalCodec(mt, vals, v2) }); p != "" {
					d = p
				}
				if d != "" {
					r.Fail("roundtrip", fmt.Sprintf("%s v2=%v base%d", mt.Name(), v2, bk), gm.CodecCase{Type: mt.Name(), V2: v2, Vals: vals}, d)
				}
				// v1: extensions dropped and returned as zero (EvalCodec compares with Canon, which zeroes them)
			}
		}
		// 2./3. truncation invariance in v2 and exact length in v1
		for bk := 0; bk < 4; bk++ {
			var vals []ref.Val
			if bk < 3 {
				vals = gm.BaseVals(mt.Def, bk)
			} else {
				// only the first wire field non-zero: long zero tail
				vals = mt.Def.ZeroVals()
				lay := mt.Def.Layout()
				if len(lay) > 0 {
					f := lay[0]
					if vals[f.Index].IsS {
						vals[f.Index].Str = "k"
					} else {
						vals[f.Index].Bits[0] = 1
					}
				}
			}
			// full length (untruncated) encoding
			full := append([]byte{}, mt.Def.Encode(vals, true)...)
			for len(full) < ext {
				full = append(full, 0)
			}
			canon := mt.Def.Canon(vals, true)
			minLen := len(full)
			for minLen > 0 && full[minLen-1] == 0 {
				minLen--
			}
			for n := minLen; n <= ext; n++ {
				evals.Add(1)
				c := pcase{Type: mt.Name(), V2: true, Payload: full[:n:n], Cap: n + 7, Expect: canon}
				if d := evalPayload(mt, c); d != "" {
					failP("truncation", c, d)
				}
			}
			for _, j := range []int{1, 2, 3, 8, 255 - ext} {
				if j <= 0 || ext+j > 255 {
					continue
				}
				evals.Add(2)
				c := pcase{Type: mt.Name(), V2: true, Payload: append(append([]byte{}, full...), make([]byte, j)...), Expect: canon}
				if d := evalPayload(mt, c); d != "" {
					failP("truncation", c, d)
				}
				// unknown non-zero trailing bytes
				c2 := pcase{Type: mt.Name(), V2: true, Payload: append(append([]byte{}, full...), fill(j, 2)...), Cap: ext + j + 3, Expect: canon}
				if d := evalPayload(mt, c2); d != "" {
					failP("trailing", c2, d)
				}
			}
			// v1: base fields only, extension fields zero
			full1 := mt.Def.Encode(vals, false)
			canon1 := mt.Def.Canon(vals, false)
			evals.Add(1)
			c := pcase{Type: mt.Name(), V2: false, Payload: full1, Cap: len(full1) + 5, Expect: canon1}
			if d := evalPayload(mt, c); d != "" {
				failP("v1", c, d)
			}
		}
		// 4./5. totality + aliasing + v1 exact length: every payload length x fills
		lim := maxLen
		if shape {
			lim = ext + 12
		}
		nfill := 4
		if r.Thorough() {
			nfill = 8
			if !shape {
				lim = 255
			} else {
				lim = ext + 40
			}
		}
		if lim > 255 {
			lim = 255
		}
		for n := 0; n <= lim; n++ {
			for k := 0; k < nfill; k++ {
				for _, v2 := range []bool{false, true} {
					if !v2 && k > 1 && n != base {
						continue
					}
					for _, extra := range []int{0, 9} {
						if extra > 0 && !(n < ext+2) {
							continue
						}
						evals.Add(1)
						c := pcase{Type: mt.Name(), V2: v2, Payload: fill(n, k), Cap: n + extra}
						if d := evalPayload(mt, c); d != "" {
							failP("payload", c, d)
						}
					}
				}
			}
		}
		distinct.AddString(mt.Name())
		if i%700 == 0 {
			r.Sample(pcase{Type: mt.Name(), V2: true, Payload: fill(ext/2, 2), Cap: ext/2 + 9})
		}
	})
	r.Assumption = []string{
		"payload contents: 4 fill patterns at every length 0..255 plus the encodings of 4 whole-message assignments; not all byte strings",
		"user shapes: every 4th shape in quick, all 5125 in thorough",
	}
	r.Finish(map[string]any{
		"evaluations":         evals.N(),
		"distinct_nontrivial": distinct.N(),
		"rule":                "per message type: round trips of whole-message assignments; every prefix length of the untruncated v2 encoding down to the last non-zero byte and zero/non-zero extensions of it must decode to the same value; every payload length 0..255 x 4 fills x 2 versions decoded with the payload inside a larger sentinel-filled backing array (cap>len and cap==len), compared with ref.Decode and the backing array compared byte for byte; distinct = message types covered",
		"types":               len(all),
	})
}
