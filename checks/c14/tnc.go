//go:build vmc && tnc

package main

import (
	"errors"
	"time"

	"github.com/bluenviron/gomavlib/v3/pkg/timednetconn"
	"github.com/bluenviron/gomavlib/v3/pkg/vmc"
	"github.com/bluenviron/gomavlib/v3/pkg/vmc/vnet"
)

// hasTNC: the repository has the helper package pkg/timednetconn (build tag tnc, set by build.sh).
const hasTNC = true

// ---- timednetconn alone
func (e *exec) tnc() {
	const rto, wto = 5 * time.Second, 3 * time.Second
	c := &vnet.FakeConn{Name: "raw"}
	failSet := vmc.Choose(3, "deadline-setter-fails-at") // 0 never, 1 first call, 2 second call
	tc := timednetconn.New(rto, wto, c)
	steps := []time.Duration{0, rto - 1, rto, rto + 1}
	now := time.Duration(0)
	errSet := errors.New("set deadline failed")
	for i := 0; i < 3; i++ {
		now += steps[vmc.Choose(4, "clock-step")]
		sleepUntil(now)
		isWrite := vmc.Choose(2, "op") == 1
		c.DeadlineFail = nil
		if failSet == i+1 {
			c.DeadlineFail = errSet
		}
		ioBefore := len(c.IO)
		var err error
		if isWrite {
			_, err = tc.Write([]byte{1, 2, 3})
		} else {
			c.In = append(c.In, []byte{9})
			_, err = tc.Read(make([]byte, 4))
		}
		if failSet == i+1 {
			if !errors.Is(err, errSet) {
				e.fail("deadline setter failed but the call returned %v", err)
			}
			if len(c.IO) != ioBefore {
				e.fail("the wrapped connection was used although arming the deadline failed")
			}
			continue
		}
		if err != nil {
			e.fail("call %d: %v", i, err)
		}
		if len(c.IO) != ioBefore+1 {
			e.fail("call %d did not reach the wrapped connection exactly once", i)
			continue
		}
		rec := c.IO[len(c.IO)-1]
		to := rto
		if isWrite {
			to = wto
		}
		if !rec.Deadline.Equal(vmc.Epoch.Add(now + to)) {
			e.fail("call %d (write=%v) at %v ran with deadline %v, want %v", i, isWrite, now, rec.Deadline.Sub(vmc.Epoch), now+to)
		}
	}
	if err := tc.Close(); err != nil || c.CloseCalls != 1 {
		e.fail("Close not forwarded")
	}
}
