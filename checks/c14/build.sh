#!/bin/bash
exec "$(dirname "$0")/../../bin/build-vmc" checks/c14 "$1"
