#!/bin/bash
# the timednetconn scenario drives the helper package directly: only when the repository has it
if [ -d "${REPO:-/repo}/pkg/timednetconn" ]; then export VMC_EXTRA_TAGS=tnc; fi
exec "$(dirname "$0")/../../bin/build-vmc" checks/c14 "$1"
