//go:build vmc && !tnc

package main

// hasTNC: the repository has no package pkg/timednetconn (folded into another package): the
// scenario that drives that helper directly is not built; the idle scenarios still check the
// per-call deadlines on the connections the node uses.
const hasTNC = false

func (e *exec) tnc() {}
