//go:build vmc

// C14: channel lifecycle under faults. Engine B on a virtual clock: all opener / dialer
// scripts up to 4 attempts x read fault kind x fault position for reconnecting endpoints,
// peers connecting and failing in all orders for server endpoints, idle expiry and
// per-call deadline arming, and timednetconn call sequences.
package main

import (
	"errors"
	"fmt"
	"io"
	"net"
	"strings"
	"time"

	"github.com/bluenviron/gomavlib/v3"
	"github.com/bluenviron/gomavlib/v3/pkg/dialects/common"
	"github.com/bluenviron/gomavlib/v3/pkg/vmc"
	"github.com/bluenviron/gomavlib/v3/pkg/vmc/vnet"

	"verif/sx"
)

type params struct {
	Scen string // reconn server idle tnc
	Kind string // serial tcpclient udpclient | tcpserver udpserver
	Feed bool   // idle: the peer keeps sending
	Full bool   // reconn: the full (error kind x position) product per attempt (19^4 scripts)
}

func (p params) name() string {
	s := p.Scen + "/" + p.Kind
	if p.Feed {
		s += "/receiving"
	}
	if p.Full {
		s += "/full"
	}
	return s
}

type evRec struct {
	what string
	ch   *gomavlib.Channel
	at   time.Duration
	err  error
}

type exec struct {
	thorough bool
	p        params
	evs      []evRec
	problems []string
	finished bool
	log      sx.Log
}

var errReset = errors.New("read: connection reset by peer")
var errCustom = errors.New("injected read failure")

func frameHB(seq byte, sys byte) []byte {
	return sx.FrameOf(true, seq, sys, 1, &common.MessageHeartbeat{Type: 1, Autopilot: 8, SystemStatus: 4, MavlinkVersion: 3}, nil, 0, 0)
}

func (e *exec) consume(n *gomavlib.Node) {
	e.log.Consume(n, -1, func(ev gomavlib.Event) {
		at := time.Duration(vmc.NowNS())
		switch x := ev.(type) {
		case *gomavlib.EventChannelOpen:
			e.evs = append(e.evs, evRec{"open", x.Channel, at, nil})
		case *gomavlib.EventChannelClose:
			e.evs = append(e.evs, evRec{"close", x.Channel, at, x.Error})
		case *gomavlib.EventFrame:
			e.evs = append(e.evs, evRec{"frame", x.Channel, at, nil})
		}
	})
}

func sleepUntil(d time.Duration) {
	vmc.AddWake(vmc.Epoch.Add(d), "scenario")
	vmc.Await("until "+d.String(), func() bool { return vmc.NowNS() >= int64(d) })
}

// late: the peer is unreachable for a chosen number of attempts (longer than the dial timeout
// in total), then reachable again: the endpoint must connect at that attempt.
func (e *exec) late() {
	p := e.p
	nfail := 2 + vmc.Choose(7, "failed-attempts") // 2..8 failures = 4..16 s of outage (dial timeout 7 s)
	ok := &vnet.FakeConn{Name: "conn-late"}
	var conns []*vnet.FakeConn
	for i := 0; i < nfail; i++ {
		conns = append(conns, nil)
	}
	conns = append(conns, ok)
	n := &gomavlib.Node{Dialect: sx.Dialect(), OutVersion: gomavlib.V2, OutSystemID: 10, HeartbeatDisable: true,
		IdleTimeout: 500 * time.Second, ReadTimeout: 7 * time.Second}
	var attempts *[]time.Duration
	switch p.Kind {
	case "serial":
		ss := &sx.SerialScript{Conns: append([]*vnet.FakeConn{{Name: "probe"}}, conns...)}
		ss.Install()
		attempts = &ss.Attempts
		n.Endpoints = []gomavlib.EndpointConf{gomavlib.EndpointSerial{Device: "/dev/ttyFAKE", Baud: 57600}}
	case "tcpclient":
		ds := &sx.DialScript{Results: conns}
		ds.Install()
		attempts = &ds.Attempts
		n.Endpoints = []gomavlib.EndpointConf{gomavlib.EndpointTCPClient{Address: "1.2.3.4:5600"}}
	case "udpclient":
		ds := &sx.DialScript{Results: conns}
		ds.Install()
		attempts = &ds.Attempts
		n.Endpoints = []gomavlib.EndpointConf{gomavlib.EndpointUDPClient{Address: "1.2.3.4:5600"}}
	}
	if err := n.Initialize(); err != nil {
		e.fail("Initialize: %v", err)
		return
	}
	vmc.GoApp("consumer", func() { e.consume(n) })
	sleepUntil(time.Duration(2*nfail+6) * time.Second)
	opened := false
	for _, ev := range e.evs {
		if ev.what == "open" {
			opened = true
			if want := time.Duration(2*nfail) * time.Second; ev.at < want {
				e.fail("channel opened at %v although the peer was unreachable until %v", ev.at, want)
			}
		}
	}
	if !opened || !ok.Handed {
		e.fail("the peer became reachable again after %d failed attempts (%v) but the endpoint did not connect within 6 more seconds (attempts at %v)", nfail, time.Duration(2*nfail)*time.Second, *attempts)
	}
	n.Close()
}

// readfault: custom and UDP broadcast endpoints: a read failure at the k-th read closes the
// channel with the cause; the endpoint hands its transport to a fresh channel.
func (e *exec) readfault() {
	p := e.p
	errs := []error{io.EOF, errReset, errCustom}
	want := errs[vmc.Choose(3, "read-error-kind")]
	k := 1 + vmc.Choose(3, "fail-at-read")
	n := &gomavlib.Node{Dialect: sx.Dialect(), OutVersion: gomavlib.V2, OutSystemID: 10, HeartbeatDisable: true}
	var frames [][]byte
	for r := 1; r < k; r++ {
		frames = append(frames, frameHB(byte(r), 80))
	}
	if p.Kind == "custom" {
		c := &vnet.FakeConn{Name: "custom", In: frames, InErr: want, InErrOnce: true}
		n.Endpoints = []gomavlib.EndpointConf{gomavlib.EndpointCustom{ReadWriteCloser: c}}
	} else {
		pc := &vnet.FakePacketConn{Name: "bc", In: frames, InErr: want}
		vnet.ListenPacketHook = func(network, address string) (net.PacketConn, error) { return pc, nil }
		n.Endpoints = []gomavlib.EndpointConf{gomavlib.EndpointUDPBroadcast{BroadcastAddress: "192.168.7.255:5600", LocalAddress: "192.168.7.1:5600"}}
	}
	if err := n.Initialize(); err != nil {
		e.fail("Initialize: %v", err)
		return
	}
	vmc.GoApp("consumer", func() { e.consume(n) })
	sleepUntil(3 * time.Second)
	var first *gomavlib.Channel
	nframes, closed := 0, false
	for _, ev := range e.evs {
		switch ev.what {
		case "open":
			if first == nil {
				first = ev.ch
			}
		case "frame":
			if ev.ch == first {
				nframes++
			}
		case "close":
			if ev.ch == first {
				closed = true
				if !errors.Is(ev.err, want) {
					e.fail("close event carries %v, the transport failed with %v", ev.err, want)
				}
			}
		}
	}
	if !closed {
		e.fail("transport read failed with %v at read %d but no close event for the channel (events %v)", want, k, e.log.Events)
	}
	if nframes != k-1 {
		e.fail("%d of %d frames before the failure delivered", nframes, k-1)
	}
	n.Close()
}

// wrfault: a fault SEQUENCE: the j-th write fails (the channel survives that, C13), later the
// read side fails: the close event must carry the error that ended the channel.
var errWrite = errors.New("injected write failure")

func (e *exec) wrfault() {
	p := e.p
	errs := []error{io.EOF, errReset, errCustom}
	want := errs[vmc.Choose(3, "read-error-kind")]
	nw := 1 + vmc.Choose(3, "writes")
	j := 1 + vmc.Choose(nw, "write-fails-at")
	all := vmc.Choose(2, "every-later-write-fails") == 1
	var lst *vnet.FakeListener
	c := &vnet.FakeConn{Name: "conn", WriteFailAt: j, WriteErr: errWrite, WriteFailAll: all}
	n := &gomavlib.Node{Dialect: sx.Dialect(), OutVersion: gomavlib.V2, OutSystemID: 10, HeartbeatDisable: true,
		IdleTimeout: 500 * time.Second, ReadTimeout: 7 * time.Second}
	switch p.Kind {
	case "custom":
		c.InErrOnce = true
		n.Endpoints = []gomavlib.EndpointConf{gomavlib.EndpointCustom{ReadWriteCloser: c}}
	case "serial":
		ss := &sx.SerialScript{Conns: []*vnet.FakeConn{{Name: "probe"}, c}}
		ss.Install()
		n.Endpoints = []gomavlib.EndpointConf{gomavlib.EndpointSerial{Device: "/dev/ttyFAKE", Baud: 57600}}
	case "tcpclient":
		ds := &sx.DialScript{Results: []*vnet.FakeConn{c}}
		ds.Install()
		n.Endpoints = []gomavlib.EndpointConf{gomavlib.EndpointTCPClient{Address: "1.2.3.4:5600"}}
	case "tcpserver":
		l := &vnet.FakeListener{Name: "lst"}
		vnet.ListenHook = func(network, address string) (net.Listener, error) { return l, nil }
		n.Endpoints = []gomavlib.EndpointConf{gomavlib.EndpointTCPServer{Address: "0.0.0.0:5600"}}
		c.Remote = "9.9.9.1:1000"
		lst = l
	}
	if err := n.Initialize(); err != nil {
		e.fail("Initialize: %v", err)
		return
	}
	vmc.GoApp("consumer", func() { e.consume(n) })
	if lst != nil {
		lst.Connect(c)
	}
	vmc.AddWake(vmc.Epoch.Add(10*time.Second), "opened-or-horizon")
	vmc.Await("channel open", func() bool {
		for _, ev := range e.evs {
			if ev.what == "open" {
				return true
			}
		}
		return vmc.NowNS() >= int64(10*time.Second)
	})
	for i := 0; i < nw; i++ {
		if err := n.WriteMessageAll(&common.MessageHeartbeat{Type: 2, CustomMode: uint32(i)}); err != nil {
			e.fail("WriteMessageAll: %v", err)
		}
	}
	vmc.AddWake(vmc.Epoch.Add(20*time.Second), "written-or-horizon")
	closeSeen := func() bool {
		for _, ev := range e.evs {
			if ev.what == "close" {
				return true
			}
		}
		return false
	}
	vmc.Await("writes reached the transport", func() bool { return c.WriteCalls >= nw || closeSeen() || vmc.NowNS() >= int64(20*time.Second) })
	sleepUntil(time.Duration(vmc.NowNS()) + time.Second)
	if c.WriteCalls < nw && !closeSeen() {
		e.fail("only %d of %d writes reached the transport (write %d failed) although the channel is still open", c.WriteCalls, nw, j)
	}
	// after the failed write the channel either goes on (C13: "keeps delivering later valid
	// writes") or is closed and reported with the write error as the cause; in the first case
	// the read side fails next and the close event must carry THAT error
	closedByWrite := false
	for _, ev := range e.evs {
		if ev.what == "close" {
			closedByWrite = true
			if !errors.Is(ev.err, errWrite) {
				e.fail("channel closed with %v after write %d of %d failed with %v and before the read side failed", ev.err, j, nw, errWrite)
			}
		}
	}
	if closedByWrite {
		n.Close()
		return
	}
	c.FailRead(want)
	sleepUntil(time.Duration(vmc.NowNS()) + time.Second)
	closed := false
	for _, ev := range e.evs {
		if ev.what == "close" && !closed {
			closed = true
			if !errors.Is(ev.err, want) {
				e.fail("close event carries %v, but the channel ended because the read side failed with %v (write %d of %d had failed earlier)", ev.err, want, j, nw)
			}
		}
	}
	if !closed {
		e.fail("read side failed with %v but no close event (events %v)", want, e.log.Events)
	}
	n.Close()
}

// drain: a serial port that drains its output on Close (a Write stuck in the device completes
// only after a while, Close does not interrupt it); the read side fails meanwhile. The fresh
// channel must neither be opened before the old one was reported closed nor earlier than the
// reconnect delay after that.
func (e *exec) drain() {
	stall := []time.Duration{3 * time.Second, 6 * time.Second}[vmc.Choose(2, "drain-time")]
	c0 := &vnet.FakeConn{Name: "conn0", WriteStallAt: 1, WriteStallFor: stall}
	c1 := &vnet.FakeConn{Name: "conn1"}
	ss := &sx.SerialScript{Conns: []*vnet.FakeConn{{Name: "probe"}, c0, c1}}
	ss.Install()
	n := &gomavlib.Node{Dialect: sx.Dialect(), OutVersion: gomavlib.V2, OutSystemID: 10, HeartbeatDisable: true,
		Endpoints: []gomavlib.EndpointConf{gomavlib.EndpointSerial{Device: "/dev/ttyFAKE", Baud: 57600}}}
	if err := n.Initialize(); err != nil {
		e.fail("Initialize: %v", err)
		return
	}
	vmc.GoApp("consumer", func() { e.consume(n) })
	sleepUntil(500 * time.Millisecond)
	if err := n.WriteMessageAll(&common.MessageHeartbeat{Type: 2}); err != nil {
		e.fail("WriteMessageAll: %v", err)
	}
	sleepUntil(time.Second)
	c0.FailRead(errReset)
	sleepUntil(15 * time.Second)
	var seq []string
	open, opens := 0, 0
	var closeAt, reopenAt time.Duration = -1, -1
	for _, ev := range e.evs {
		switch ev.what {
		case "open":
			open++
			opens++
			seq = append(seq, fmt.Sprintf("open@%v", ev.at))
			if opens == 2 {
				reopenAt = ev.at
			}
		case "close":
			open--
			seq = append(seq, fmt.Sprintf("close@%v", ev.at))
			if closeAt < 0 {
				closeAt = ev.at
				if !errors.Is(ev.err, errReset) {
					e.fail("close event carries %v, the read side failed with %v", ev.err, errReset)
				}
			}
		}
		if open > 1 {
			e.fail("two channels of the serial endpoint open at once (the first one is still draining its output): %v", seq)
			break
		}
	}
	if closeAt < 0 {
		e.fail("read side failed at 1s but no close event within 15s: %v", seq)
	} else if reopenAt < 0 {
		e.fail("no fresh channel within 15s after the close at %v: %v", closeAt, seq)
	} else if reopenAt < closeAt+2*time.Second {
		e.fail("fresh channel at %v, earlier than the reconnect delay (2s) after the close at %v", reopenAt, closeAt)
	}
	n.Close()
}

func (e *exec) Body() {
	sx.ResetGlobals()
	switch e.p.Scen {
	case "readfault":
		e.readfault()
	case "late":
		e.late()
	case "wrfault":
		e.wrfault()
	case "drain":
		e.drain()
	case "reconn":
		e.reconn()
	case "server":
		e.server()
	case "idle":
		e.idle()
	case "tnc":
		e.tnc()
	}
	e.finished = true
	vmc.Finish()
}

func (e *exec) fail(format string, a ...any) {
	e.problems = append(e.problems, fmt.Sprintf(format, a...))
}

// ---- reconnecting endpoints
func (e *exec) reconn() {
	p := e.p
	const nAttempts = 4
	// script: each attempt ok / fail; each successful connection dies with a chosen error at
	// the k-th read
	errs := []error{io.EOF, errReset, errCustom}
	type attT struct {
		ok   bool
		conn *vnet.FakeConn
		err  error
		life time.Duration // 0: the read side fails at once (at the k-th read); else the peer dies after that long
	}
	var script []attT
	combos := [][2]int{{0, 1}, {1, 2}, {2, 3}, {0, 3}, {1, 1}} // (error kind, k) pairs used in quick
	for i := 0; i < nAttempts; i++ {
		a := attT{ok: vmc.Choose(2, "attempt-ok") == 0}
		if a.ok {
			var ek, k int
			if e.p.Full {
				ek, k = vmc.Choose(3, "read-error-kind"), 1+vmc.Choose(3, "fail-at-read")
			} else {
				cb := combos[vmc.Choose(len(combos), "error-kind-and-position")]
				ek, k = cb[0], cb[1]
			}
			a.err = errs[ek]
			if vmc.Choose(2, "connection-lifetime") == 1 {
				a.life = 5 * time.Second
			}
			c := &vnet.FakeConn{Name: fmt.Sprintf("conn%d", i)}
			if a.life == 0 {
				c.InErr = a.err
			}
			for r := 1; r < k; r++ {
				c.In = append(c.In, frameHB(byte(r), byte(50+i)))
			}
			a.conn = c
		}
		script = append(script, a)
	}
	n := &gomavlib.Node{Dialect: sx.Dialect(), OutVersion: gomavlib.V2, OutSystemID: 10, HeartbeatDisable: true,
		IdleTimeout: 500 * time.Second, ReadTimeout: 7 * time.Second}
	var attempts *[]time.Duration
	var conns []*vnet.FakeConn
	for _, a := range script {
		conns = append(conns, a.conn)
	}
	switch p.Kind {
	case "serial":
		ss := &sx.SerialScript{Conns: append([]*vnet.FakeConn{{Name: "probe"}}, conns...)}
		ss.Install()
		attempts = &ss.Attempts
		n.Endpoints = []gomavlib.EndpointConf{gomavlib.EndpointSerial{Device: "/dev/ttyFAKE", Baud: 57600}}
	case "tcpclient":
		ds := &sx.DialScript{Results: conns}
		ds.Install()
		attempts = &ds.Attempts
		n.Endpoints = []gomavlib.EndpointConf{gomavlib.EndpointTCPClient{Address: "1.2.3.4:5600"}}
	case "udpclient":
		ds := &sx.DialScript{Results: conns}
		ds.Install()
		attempts = &ds.Attempts
		n.Endpoints = []gomavlib.EndpointConf{gomavlib.EndpointUDPClient{Address: "1.2.3.4:5600"}}
	}
	if err := n.Initialize(); err != nil {
		e.fail("Initialize: %v", err)
		return
	}
	vmc.GoApp("consumer", func() { e.consume(n) })
	// long-lived connections: the peer dies `life` after the connection was established
	for _, a := range script {
		if a.ok && a.life > 0 {
			c := a.conn
			vmc.AddWake(vmc.Epoch.Add(60*time.Second), "handed-or-horizon")
			vmc.Await("handed "+c.Name, func() bool { return c.Handed || vmc.NowNS() >= int64(60*time.Second) })
			if !c.Handed {
				break
			}
			sleepUntil(time.Duration(vmc.NowNS()) + a.life)
			c.FailRead(a.err)
		}
	}
	sleepUntil(70 * time.Second)
	att := *attempts
	if p.Kind == "serial" {
		att = att[1:] // the probe of Initialize
	}
	// liveness: the endpoint keeps trying (the script has 4 attempts, later ones fail too)
	if len(att) < nAttempts+1 {
		e.fail("only %d connection attempts within 70 s (script %v): the endpoint stopped reconnecting", len(att), script)
	}
	if len(att) > 0 && att[0] >= 2*time.Second {
		e.fail("first connection attempt at %v: there is no reconnect delay before the very first attempt", att[0])
	}
	// pair up attempts with channel open / close events
	var opens, closes []evRec
	for _, ev := range e.evs {
		switch ev.what {
		case "open":
			opens = append(opens, ev)
		case "close":
			closes = append(closes, ev)
		}
	}
	oi := 0
	lastEnd := time.Duration(-1) // time of the last close / failed attempt
	for i, a := range script {
		if i >= len(att) {
			break
		}
		if lastEnd >= 0 && att[i] < lastEnd+2*time.Second {
			e.fail("attempt %d at %v, earlier than the reconnect delay (2s) after the previous end at %v (script %v)", i, att[i], lastEnd, script)
		}
		if !a.ok {
			lastEnd = att[i]
			continue
		}
		if oi >= len(opens) || oi >= len(closes) {
			e.fail("successful attempt %d has no open/close event pair: opens=%d closes=%d", i, len(opens), len(closes))
			break
		}
		if closes[oi].ch != opens[oi].ch {
			e.fail("close event %d belongs to another channel than open event %d", oi, oi)
		}
		if !errors.Is(closes[oi].err, a.err) {
			e.fail("close event of connection %d carries %v, the transport failed with %v", i, closes[oi].err, a.err)
		}
		if opens[oi].at < att[i] || opens[oi].at >= att[i]+time.Second {
			e.fail("open event of attempt %d at %v, connected at %v", i, opens[oi].at, att[i])
		}
		lastEnd = closes[oi].at
		oi++
	}
	// never two channels open at once
	open := 0
	for _, ev := range e.evs {
		switch ev.what {
		case "open":
			open++
		case "close":
			open--
		}
		if open > 1 {
			e.fail("two channels of a client-type endpoint open at once: %v", e.log.Events)
			break
		}
	}
	for i, c := range conns {
		if c != nil && c.Handed && i+1 < len(conns) && conns[i+1] != nil && conns[i+1].Handed && !c.IsClosed() {
			e.fail("connection %d still open while connection %d was opened", i, i+1)
		}
	}
	n.Close()
}

// ---- server endpoints
func (e *exec) server() {
	p := e.p
	l := &vnet.FakeListener{Name: "lst"}
	vnet.ListenHook = func(network, address string) (net.Listener, error) { return l, nil }
	n := &gomavlib.Node{Dialect: sx.Dialect(), OutVersion: gomavlib.V2, OutSystemID: 10, HeartbeatDisable: true, IdleTimeout: 500 * time.Second}
	if p.Kind == "tcpserver" {
		n.Endpoints = []gomavlib.EndpointConf{gomavlib.EndpointTCPServer{Address: "0.0.0.0:5600"}}
	} else {
		n.Endpoints = []gomavlib.EndpointConf{gomavlib.EndpointUDPServer{Address: "0.0.0.0:5600"}}
	}
	if err := n.Initialize(); err != nil {
		e.fail("Initialize: %v", err)
		return
	}
	vmc.GoApp("consumer", func() { e.consume(n) })
	// three peers; each sends one frame; peer i fails (or not) with a chosen error; the order of
	// connects and failures is chosen
	errs := []error{nil, io.EOF, errReset}
	var peers []*vnet.FakeConn
	var wantErr []error
	for i := 0; i < 3; i++ {
		c := &vnet.FakeConn{Name: fmt.Sprintf("peer%d", i), Remote: fmt.Sprintf("9.9.9.%d:1000", i), In: [][]byte{frameHB(1, byte(60+i))}}
		peers = append(peers, c)
		wantErr = append(wantErr, errs[vmc.Choose(3, "peer-fault")])
	}
	// action list: connect0, then interleavings of (fail_i after connect_i) and connect_{i+1}
	order := vmc.Choose(3, "peer-order")
	conn := func(i int) { l.Connect(peers[i]) }
	failp := func(i int) {
		if wantErr[i] != nil {
			peers[i].FailRead(wantErr[i])
		}
	}
	switch order {
	case 0: // sequential: each peer fails before the next connects
		for i := 0; i < 3; i++ {
			conn(i)
			sleepUntil(time.Duration(i+1) * time.Second)
			failp(i)
		}
	case 1: // all connect, then fail in reverse order
		for i := 0; i < 3; i++ {
			conn(i)
		}
		sleepUntil(time.Second)
		for i := 2; i >= 0; i-- {
			failp(i)
		}
	case 2: // overlapping
		conn(0)
		conn(1)
		failp(0)
		conn(2)
		failp(2)
		failp(1)
	}
	sleepUntil(10 * time.Second)
	// every peer got its own channel and its frame was attributed to it
	chans := map[*gomavlib.Channel]bool{}
	opens, frames := 0, 0
	closeErr := map[*gomavlib.Channel]error{}
	closed := map[*gomavlib.Channel]bool{}
	for _, ev := range e.evs {
		switch ev.what {
		case "open":
			opens++
			chans[ev.ch] = true
		case "frame":
			frames++
		case "close":
			closed[ev.ch] = true
			closeErr[ev.ch] = ev.err
		}
	}
	if l.Accepted != 3 || opens != 3 || len(chans) != 3 {
		e.fail("3 peers connected: %d accepted, %d open events, %d distinct channels (events %v)", l.Accepted, opens, len(chans), e.log.Events)
	}
	if frames != 3 {
		e.fail("%d of 3 frames delivered (events %v)", frames, e.log.Events)
	}
	nclosed, nfail := 0, 0
	for i := range peers {
		if wantErr[i] != nil {
			nfail++
		}
	}
	for ch := range chans {
		if closed[ch] {
			nclosed++
			found := false
			for i := range peers {
				if wantErr[i] != nil && errors.Is(closeErr[ch], wantErr[i]) {
					found = true
				}
			}
			if !found {
				e.fail("close event carries %v, no peer failed with that", closeErr[ch])
			}
		}
	}
	if nclosed != nfail {
		e.fail("%d peers failed but %d channels were closed (events %v)", nfail, nclosed, e.log.Events)
	}
	for i, c := range peers {
		if wantErr[i] != nil && !c.IsClosed() {
			e.fail("connection of failed peer %d not released", i)
		}
		if wantErr[i] == nil && c.IsClosed() {
			e.fail("connection of healthy peer %d was closed", i)
		}
	}
	n.Close()
}

// ---- idle expiry and per-call deadlines
func (e *exec) idle() {
	p := e.p
	const idle = 5 * time.Second
	const wto = 3 * time.Second
	n := &gomavlib.Node{Dialect: sx.Dialect(), OutVersion: gomavlib.V2, OutSystemID: 10, HeartbeatDisable: true, IdleTimeout: idle, WriteTimeout: wto, ReadTimeout: 7 * time.Second}
	c := &vnet.FakeConn{Name: "conn"}
	var l *vnet.FakeListener
	switch p.Kind {
	case "tcpserver", "udpserver":
		l = &vnet.FakeListener{Name: "lst"}
		vnet.ListenHook = func(network, address string) (net.Listener, error) { return l, nil }
		if p.Kind == "tcpserver" {
			n.Endpoints = []gomavlib.EndpointConf{gomavlib.EndpointTCPServer{Address: "0.0.0.0:5600"}}
		} else {
			n.Endpoints = []gomavlib.EndpointConf{gomavlib.EndpointUDPServer{Address: "0.0.0.0:5600"}}
		}
	case "tcpclient", "udpclient":
		ds := &sx.DialScript{Results: []*vnet.FakeConn{c}}
		ds.Install()
		if p.Kind == "tcpclient" {
			n.Endpoints = []gomavlib.EndpointConf{gomavlib.EndpointTCPClient{Address: "1.2.3.4:5600"}}
		} else {
			n.Endpoints = []gomavlib.EndpointConf{gomavlib.EndpointUDPClient{Address: "1.2.3.4:5600"}}
		}
	}
	if err := n.Initialize(); err != nil {
		e.fail("Initialize: %v", err)
		return
	}
	vmc.GoApp("consumer", func() { e.consume(n) })
	start := time.Duration(0)
	if l != nil {
		sleepUntil(time.Second)
		start = time.Second
		l.Connect(c)
	}
	horizon := start + 21*time.Second
	if p.Feed {
		// the peer sends a frame every idle-1s; the application writes now and then
		for r := 1; r <= 5; r++ {
			sleepUntil(start + time.Duration(r)*(idle-time.Second))
			c.Feed(frameHB(byte(r), 70))
			if r%2 == 0 {
				n.WriteMessageAll(&common.MessagePing{Seq: uint32(r)}) //nolint
			}
		}
	}
	sleepUntil(horizon)
	var closeAt time.Duration = -1
	for _, ev := range e.evs {
		if ev.what == "close" && closeAt < 0 {
			closeAt = ev.at
		}
	}
	if p.Feed {
		if closeAt >= 0 {
			e.fail("channel that received a frame every %v was closed at %v (idle timeout %v)", idle-time.Second, closeAt, idle)
		}
	} else {
		if closeAt < 0 {
			e.fail("silent channel still open %v after it connected (idle timeout %v)", horizon-start, idle)
		} else if closeAt < start+idle {
			e.fail("silent channel closed at %v, before the idle timeout expired (%v)", closeAt, start+idle)
		}
	}
	// every read / write was bounded by a deadline armed afresh for that call
	for i, io := range c.IO {
		to := idle
		if io.Write {
			to = wto
		}
		if io.Deadline.IsZero() || !io.Deadline.Equal(io.At.Add(to)) {
			kind := "Read"
			if io.Write {
				kind = "Write"
			}
			e.fail("%s call %d reached the connection at %v with deadline %v, want now+%v armed for that call", kind, i, io.At.Sub(vmc.Epoch), io.Deadline.Sub(vmc.Epoch), to)
			break
		}
	}
	n.Close()
}

func (e *exec) Check(r *vmc.Result) string {
	if r.End == "panic" {
		return r.PanicMsg
	}
	if len(e.problems) > 0 {
		return strings.Join(e.problems, "; ")
	}
	if e.finished {
		return ""
	}
	var stuck []string
	for _, t := range r.Threads {
		if !t.Done {
			stuck = append(stuck, fmt.Sprintf("T%d(%s) at %s", t.ID, t.Name, t.Pending))
		}
	}
	return "scenario did not finish (" + r.End + "); threads: " + strings.Join(stuck, ", ")
}

func (e *exec) Outcome(r *vmc.Result) string { return fmt.Sprint(r.End, e.log.Events) }

func variants(thorough bool) []sx.Variant {
	var ps []params
	for _, k := range []string{"serial", "tcpclient", "udpclient"} {
		ps = append(ps, params{Scen: "reconn", Kind: k})
		if thorough {
			ps = append(ps, params{Scen: "reconn", Kind: k, Full: true})
		}
	}
	for _, k := range []string{"serial", "tcpclient", "udpclient"} {
		ps = append(ps, params{Scen: "late", Kind: k})
	}
	for _, k := range []string{"custom", "broadcast"} {
		ps = append(ps, params{Scen: "readfault", Kind: k})
	}
	for _, k := range []string{"custom", "serial", "tcpclient", "tcpserver"} {
		ps = append(ps, params{Scen: "wrfault", Kind: k})
	}
	ps = append(ps, params{Scen: "drain", Kind: "serial"})
	for _, k := range []string{"tcpserver", "udpserver"} {
		ps = append(ps, params{Scen: "server", Kind: k})
	}
	for _, k := range []string{"tcpserver", "udpserver", "tcpclient", "udpclient"} {
		ps = append(ps, params{Scen: "idle", Kind: k}, params{Scen: "idle", Kind: k, Feed: true})
	}
	if hasTNC {
		ps = append(ps, params{Scen: "tnc", Kind: "conn"})
	}
	var out []sx.Variant
	for _, p := range ps {
		p := p
		bound := 0
		switch p.Scen {
		case "idle", "late", "readfault":
			bound = 2
		case "wrfault", "drain":
			bound = 1
		case "server":
			bound = 1
		}
		if thorough && !p.Full {
			bound++
		}
		out = append(out, sx.Variant{
			Name: p.name(), Class: "lifecycle", MaxSteps: 30000, MaxTime: 30 * time.Minute, Bound: bound, Shards: 16,
			New: func() sx.Exec { return &exec{p: p, thorough: thorough} },
		})
	}
	return out
}

func main() { sx.Main("C14", variants) }
