//go:build vmc

// C16: automatic heartbeats and stream requests. Engine B on a virtual clock.
package main

import (
	"fmt"
	"net"
	"reflect"
	"strings"
	"time"

	"github.com/bluenviron/gomavlib/v3"
	"github.com/bluenviron/gomavlib/v3/pkg/dialect"
	"github.com/bluenviron/gomavlib/v3/pkg/dialects/common"
	"github.com/bluenviron/gomavlib/v3/pkg/message"
	"github.com/bluenviron/gomavlib/v3/pkg/vmc"
	"github.com/bluenviron/gomavlib/v3/pkg/vmc/vnet"

	"verif/ref"
	"verif/sx"
)

// MessageHeartbeat with a non-standard layout (CRC_EXTRA != 50) under id 0.
type MessageHeartbeat struct {
	Foo uint16
}

// GetID implements message.Message.
func (*MessageHeartbeat) GetID() uint32 { return 0 }

type params struct {
	Scen    string // hb | sr
	Dialect string // std | nohb | oddhb | none
	Disable bool
	Depth   int // sr: number of arrivals
}

func (p params) name() string {
	s := p.Scen + "/" + p.Dialect
	if p.Disable {
		s += "/disabled"
	}
	if p.Scen == "sr" {
		s += fmt.Sprintf("/depth%d", p.Depth)
	}
	return s
}

type exec struct {
	p        params
	log      sx.Log
	problems []string
	finished bool
	evs      []string
}

func (e *exec) fail(format string, a ...any) {
	e.problems = append(e.problems, fmt.Sprintf(format, a...))
}

func sleepUntil(d time.Duration) {
	vmc.AddWake(vmc.Epoch.Add(d), "scenario")
	vmc.Await("until "+d.String(), func() bool { return vmc.NowNS() >= int64(d) })
}

func dial(kind string) *dialect.Dialect {
	switch kind {
	case "std":
		return sx.Dialect()
	case "nohb":
		return &dialect.Dialect{Version: 3, Messages: []message.Message{&common.MessageSysStatus{}, &common.MessagePing{}, &common.MessageRequestDataStream{}}}
	case "oddhb":
		return &dialect.Dialect{Version: 3, Messages: []message.Message{&MessageHeartbeat{}, &common.MessagePing{}, &common.MessageRequestDataStream{}}}
	case "nords":
		return &dialect.Dialect{Version: 3, Messages: []message.Message{&common.MessageHeartbeat{}, &common.MessagePing{}}}
	}
	return nil
}

func (e *exec) Body() {
	sx.ResetGlobals()
	if e.p.Scen == "hb" {
		e.hb()
	} else {
		e.sr()
	}
	e.finished = true
	vmc.Finish()
}

// writesAt returns (virtual time, frame) of every frame written to a fake conn.
func writesAt(c *vnet.FakeConn) ([]time.Duration, []*ref.Frame, string) {
	return sx.WireTimed(c)
}

func (e *exec) hb() {
	p := e.p
	const period = time.Second
	a := &vnet.FakeConn{Name: "A"}
	b := &vnet.FakeConn{Name: "B"}
	l := &vnet.FakeListener{Name: "lst"}
	vnet.ListenHook = func(network, address string) (net.Listener, error) { return l, nil }
	n := &gomavlib.Node{
		Endpoints:              []gomavlib.EndpointConf{gomavlib.EndpointCustom{ReadWriteCloser: a}, gomavlib.EndpointTCPServer{Address: "0.0.0.0:5600"}},
		Dialect:                dial(p.Dialect),
		OutVersion:             gomavlib.V2,
		OutSystemID:            10,
		OutComponentID:         33,
		HeartbeatDisable:       p.Disable,
		HeartbeatPeriod:        period,
		HeartbeatSystemType:    13,
		HeartbeatAutopilotType: 12,
		IdleTimeout:            500 * time.Second,
	}
	if err := n.Initialize(); err != nil {
		e.fail("Initialize: %v", err)
		return
	}
	vmc.GoApp("consumer", func() { e.log.Consume(n, -1, nil) })
	// the second channel opens at 1.5 periods
	sleepUntil(period * 3 / 2)
	l.Connect(b)
	sleepUntil(period*7/2 + period/10)
	expect := p.Dialect == "std" && !p.Disable
	for _, tc := range []struct {
		c      *vnet.FakeConn
		openAt time.Duration
	}{{a, 0}, {b, period * 3 / 2}} {
		ts, frames, prob := writesAt(tc.c)
		if prob != "" {
			e.fail("%s: %s", tc.c.Name, prob)
			continue
		}
		if !expect {
			if len(frames) != 0 {
				e.fail("channel %s: %d frames written although heartbeats are disabled / the dialect lacks the standard HEARTBEAT", tc.c.Name, len(frames))
			}
			continue
		}
		// spaced by the configured period for as long as the channel is open: the first one no
		// later than one period after the channel opened, then exactly one per period until the
		// horizon (when exactly the first one is sent is not prescribed)
		horizon := period*7/2 + period/10
		okSpacing := len(ts) > 0 && ts[0] <= tc.openAt+period && ts[len(ts)-1] > horizon-period
		for i := 1; i < len(ts); i++ {
			if ts[i]-ts[i-1] != period {
				okSpacing = false
			}
		}
		if !okSpacing {
			e.fail("channel %s (open since %v, observed until %v): heartbeats written at %v, want one per period %v", tc.c.Name, tc.openAt, horizon, ts, period)
		}
		if pr := sx.CheckOriginated(frames, 10, 33, true, nil, 0); pr != "" {
			e.fail("channel %s: %s", tc.c.Name, pr)
		}
		for i, f := range frames {
			if f.ID != 0 {
				e.fail("channel %s: frame %d has id %d", tc.c.Name, i, f.ID)
				continue
			}
			d := sx.DefByID(0)
			vals, _ := d.Decode(f.Payload, true)
			got := map[string]uint64{}
			for fi, fd := range d.Fields {
				got[fd.Name] = vals[fi].Bits[0]
			}
			want := map[string]uint64{"type": 13, "autopilot": 12, "base_mode": 0, "custom_mode": 0, "system_status": 4, "mavlink_version": 3}
			if !reflect.DeepEqual(got, want) {
				e.fail("channel %s: heartbeat %d carries %v, configured %v", tc.c.Name, i, got, want)
			}
		}
	}
	n.Close()
}

// ---- stream requests

type source struct {
	ch   int
	sys  byte
	comp byte
	ap   common.MAV_AUTOPILOT
	hb   bool
}

var sources = []source{
	{0, 1, 1, 3, true},  // ArduPilot on c0
	{0, 1, 2, 3, true},  // other component
	{1, 1, 1, 3, true},  // same ids on the other channel
	{0, 2, 1, 12, true}, // PX4
	{0, 1, 1, 3, false}, // not a heartbeat
	{0, 1, 1, 12, true}, // the ids of the first source with another autopilot type: must neither trigger nor consume the sender's first-heartbeat slot
	{0, 10, 1, 3, true}, // ArduPilot sharing the node's own system id (companion computer setup)
}

var gaps = []time.Duration{0, 12 * time.Second, 29990 * time.Millisecond, 30010 * time.Millisecond}

func (e *exec) sr() {
	p := e.p
	conns := []*vnet.FakeConn{{Name: "c0"}, {Name: "c1"}}
	n := &gomavlib.Node{
		Endpoints:              []gomavlib.EndpointConf{gomavlib.EndpointCustom{ReadWriteCloser: conns[0]}, gomavlib.EndpointCustom{ReadWriteCloser: conns[1]}},
		Dialect:                dial(p.Dialect),
		OutVersion:             gomavlib.V2,
		OutSystemID:            10,
		HeartbeatDisable:       true,
		StreamRequestEnable:    !p.Disable,
		StreamRequestFrequency: 7,
	}
	if err := n.Initialize(); err != nil {
		e.fail("Initialize: %v", err)
		return
	}
	chanOf := map[*gomavlib.Channel]int{}
	var streamEvs []string
	vmc.GoApp("consumer", func() {
		e.log.Consume(n, -1, func(ev gomavlib.Event) {
			switch x := ev.(type) {
			case *gomavlib.EventChannelOpen:
				rwc := x.Channel.Endpoint().Conf().(gomavlib.EndpointCustom).ReadWriteCloser
				for i := range conns {
					if rwc == conns[i] {
						chanOf[x.Channel] = i
					}
				}
			case *gomavlib.EventStreamRequested:
				streamEvs = append(streamEvs, fmt.Sprintf("c%d/%d/%d", chanOf[x.Channel], x.SystemID, x.ComponentID))
			}
		})
	})
	// reference: sender -> time of last request
	type key struct {
		ch        int
		sys, comp byte
	}
	last := map[key]time.Duration{}
	type req struct {
		k  key
		at time.Duration
	}
	var required, allowed []req
	arrivals := map[key][]time.Duration{} // ArduPilot heartbeats per sender, in time order
	now := time.Duration(0)
	seq := byte(0)
	for i := 0; i < p.Depth; i++ {
		src := sources[vmc.Choose(len(sources), "source")]
		now += gaps[vmc.Choose(len(gaps), "gap")]
		sleepUntil(now)
		var m message.Message = &common.MessageHeartbeat{Type: 1, Autopilot: src.ap, SystemStatus: 4, MavlinkVersion: 3}
		if !src.hb {
			m = &common.MessagePing{Seq: 5}
		}
		if p.Dialect == "oddhb" {
			m = &MessageHeartbeat{Foo: 3}
			if !src.hb {
				m = &common.MessagePing{Seq: 5}
			}
		}
		if dial(p.Dialect) != nil {
			if d := dial(p.Dialect); d != nil {
				ok := false
				for _, dm := range d.Messages {
					if dm.GetID() == m.GetID() {
						ok = true
					}
				}
				if !ok {
					continue
				}
			}
		}
		conns[src.ch].Feed(frameOfAny(seq, src.sys, src.comp, m))
		seq++
		if src.hb && src.ap == 3 && p.Dialect == "std" && !p.Disable {
			k := key{src.ch, src.sys, src.comp}
			arrivals[k] = append(arrivals[k], now)
			t, seen := last[k]
			if !seen {
				required = append(required, req{k, now})
				last[k] = now
			} else if now-t >= 30*time.Second {
				allowed = append(allowed, req{k, now})
				last[k] = now
			}
		}
	}
	sleepUntil(now + 40*time.Second) // the periodic cleaner runs at least once more
	// observed requests per channel: groups of seven
	type obs struct {
		k  key
		at time.Duration
	}
	var got []obs
	for ci, c := range conns {
		ts, frames, prob := writesAt(c)
		if prob != "" {
			e.fail("c%d: %s", ci, prob)
			continue
		}
		if pr := sx.CheckOriginated(frames, 10, 1, true, nil, 0); pr != "" {
			e.fail("c%d: %s", ci, pr)
		}
		// request frames are grouped per target (system, component): every seven consecutive
		// requests to one target form a group with the seven streams, each once, in any order;
		// the time of the group is the time of its first frame (the requests of a group need
		// not be written at one instant, and groups for different targets may interleave)
		type tk struct{ sys, comp byte }
		cur := map[tk][]int{}
		var order []tk
		for fi, f := range frames {
			if f.ID != 66 {
				e.fail("c%d: frame %d has id %d, want REQUEST_DATA_STREAM", ci, fi, f.ID)
				continue
			}
			d := sx.DefByID(66)
			vals, _ := d.Decode(f.Payload, true)
			v := map[string]uint64{}
			for k, fd := range d.Fields {
				v[fd.Name] = vals[k].Bits[0]
			}
			if !map[uint64]bool{1: true, 2: true, 3: true, 6: true, 10: true, 11: true, 12: true}[v["req_stream_id"]] || v["req_message_rate"] != 7 || v["start_stop"] != 1 {
				e.fail("c%d: request %d is %v, want one of the streams 1,2,3,6,10,11,12 at rate 7 start 1", ci, fi, v)
			}
			k := tk{byte(v["target_system"]), byte(v["target_component"])}
			if _, ok := cur[k]; !ok {
				order = append(order, k)
			}
			cur[k] = append(cur[k], fi)
		}
		for _, k := range order {
			idx := cur[k]
			if len(idx)%7 != 0 {
				e.fail("c%d: %d requests to sys=%d comp=%d, not a multiple of seven", ci, len(idx), k.sys, k.comp)
				continue
			}
			for g := 0; g+7 <= len(idx); g += 7 {
				streams := map[uint64]bool{}
				for _, fi := range idx[g : g+7] {
					d := sx.DefByID(66)
					vals, _ := d.Decode(frames[fi].Payload, true)
					for x, fd := range d.Fields {
						if fd.Name == "req_stream_id" {
							if streams[vals[x].Bits[0]] {
								e.fail("c%d: stream %d requested twice in one group for sys=%d comp=%d", ci, vals[x].Bits[0], k.sys, k.comp)
							}
							streams[vals[x].Bits[0]] = true
						}
					}
				}
				got = append(got, obs{key{ci, k.sys, k.comp}, ts[idx[g]]})
			}
		}
	}
	// Oracle on the observed request groups per sender (times are those of the first frame of a
	// group; the node may take a moment - pacing, a busy reader - between reading a heartbeat and
	// sending, so nothing is compared with the arrival instant exactly):
	//  1. a sender's first ArduPilot heartbeat is answered (a group within 5 s after it);
	//  2. every group follows an ArduPilot heartbeat of that sender on that channel by < 5 s;
	//  3. two groups for one sender are at least 30 s apart;
	//  4. senders without ArduPilot heartbeats get nothing.
	_, _ = required, allowed
	const slack = 5 * time.Second
	groups := map[key][]time.Duration{}
	for _, g := range got {
		groups[g.k] = append(groups[g.k], g.at)
	}
	for k, as := range arrivals {
		gs := groups[k]
		if len(gs) == 0 || gs[0] < as[0] || gs[0] >= as[0]+slack {
			e.fail("first ArduPilot heartbeat from c%d sys=%d comp=%d at %v did not trigger the seven stream requests on that channel (groups for this sender at %v; all observed %v)", k.ch, k.sys, k.comp, as[0], gs, got)
		}
	}
	for k, gs := range groups {
		as := arrivals[k]
		for i, g := range gs {
			triggered := false
			for _, a := range as {
				if a <= g && g-a < slack {
					triggered = true
				}
			}
			if !triggered {
				e.fail("stream requests to c%d sys=%d comp=%d at %v: no ArduPilot heartbeat of that sender arrived on that channel in the %v before (arrivals %v)", k.ch, k.sys, k.comp, g, slack, as)
			}
			if i > 0 && g-gs[i-1] < 30*time.Second {
				e.fail("stream requests to c%d sys=%d comp=%d repeated after %v (at %v and %v): not repeated for that sender within 30 s", k.ch, k.sys, k.comp, g-gs[i-1], gs[i-1], g)
			}
		}
	}
	// one stream-requested event per group
	var wantEv []string
	for _, g := range got {
		wantEv = append(wantEv, fmt.Sprintf("c%d/%d/%d", g.k.ch, g.k.sys, g.k.comp))
	}
	if !sameMultiset(streamEvs, wantEv) {
		e.fail("EventStreamRequested events %v, request groups on the wire %v", streamEvs, wantEv)
	}
	n.Close()
}

func frameOfAny(seq, sys, comp byte, m message.Message) []byte {
	d, err := ref.DefFromStruct(reflect.TypeOf(m), m.GetID())
	if err != nil {
		panic(err)
	}
	vals := ref.ValsFromStruct(d, reflect.ValueOf(m))
	f := ref.Frame{V2: true, Seq: seq, Sys: sys, Comp: comp, ID: m.GetID(), Payload: d.Encode(vals, true)}
	f.Checksum = f.ComputeChecksum(d.CRCExtra())
	return f.Bytes()
}

func sameMultiset(a, b []string) bool {
	if len(a) != len(b) {
		return false
	}
	m := map[string]int{}
	for _, x := range a {
		m[x]++
	}
	for _, x := range b {
		m[x]--
	}
	for _, v := range m {
		if v != 0 {
			return false
		}
	}
	return true
}

func (e *exec) Check(r *vmc.Result) string {
	if r.End == "panic" {
		return r.PanicMsg
	}
	if len(e.problems) > 0 {
		return strings.Join(e.problems, "; ")
	}
	if e.finished {
		return ""
	}
	var stuck []string
	for _, t := range r.Threads {
		if !t.Done {
			stuck = append(stuck, fmt.Sprintf("T%d(%s) at %s", t.ID, t.Name, t.Pending))
		}
	}
	return "scenario did not finish (" + r.End + "); threads: " + strings.Join(stuck, ", ")
}

func (e *exec) Outcome(r *vmc.Result) string { return fmt.Sprint(r.End, e.log.Events) }

func variants(thorough bool) []sx.Variant {
	type pv struct {
		p     params
		bound int
	}
	var ps []pv
	for _, d := range []string{"std", "nohb", "oddhb", "none"} {
		ps = append(ps, pv{params{Scen: "hb", Dialect: d}, 2})
	}
	ps = append(ps, pv{params{Scen: "hb", Dialect: "std", Disable: true}, 1})
	// stream-request histories: the longest histories at bound 0, shorter ones with schedule
	// deviations
	if !thorough {
		ps = append(ps, pv{params{Scen: "sr", Dialect: "std", Depth: 3}, 0})
		ps = append(ps, pv{params{Scen: "sr", Dialect: "std", Depth: 2}, 1})
	} else {
		ps = append(ps, pv{params{Scen: "sr", Dialect: "std", Depth: 4}, -1}) // -1: bound 0 also in thorough
		ps = append(ps, pv{params{Scen: "sr", Dialect: "std", Depth: 3}, 0})  // +1 below
		ps = append(ps, pv{params{Scen: "sr", Dialect: "std", Depth: 2}, 1})
	}
	ps = append(ps, pv{params{Scen: "sr", Dialect: "std", Depth: 2, Disable: true}, 0})
	ps = append(ps, pv{params{Scen: "sr", Dialect: "nords", Depth: 2}, 0})
	ps = append(ps, pv{params{Scen: "sr", Dialect: "oddhb", Depth: 2}, 0})
	var out []sx.Variant
	for _, x := range ps {
		p := x.p
		b := x.bound
		if thorough {
			b++
		}
		if b < 0 {
			b = 0
		}
		out = append(out, sx.Variant{
			Name: p.name(), Class: "auto", MaxSteps: 60000, MaxTime: 60 * time.Minute, Bound: b, Shards: 16,
			New: func() sx.Exec { return &exec{p: p} },
		})
	}
	return out
}

func main() { sx.Main("C16", variants) }
