//go:build vmc

// C10: per-channel event stream. Engine B: scripted arrival histories (valid frames, junk,
// complete frames with wrong checksum / signature, truncated frame, read error) on 1-2
// channels in chosen chunkings, with concurrent writes, reconnects and node close, under
// all schedules within the deviation bound; the consumer's log is checked per channel
// against the event grammar and the reference-valid frames of that channel's script.
package main

import (
	"errors"
	"fmt"
	"io"
	"net"
	"strings"
	"time"

	"github.com/bluenviron/gomavlib/v3"
	"github.com/bluenviron/gomavlib/v3/pkg/dialects/common"
	"github.com/bluenviron/gomavlib/v3/pkg/message"
	"github.com/bluenviron/gomavlib/v3/pkg/vmc"
	"github.com/bluenviron/gomavlib/v3/pkg/vmc/vnet"

	"verif/ref"
	"verif/sx"
)

type params struct {
	Scen string // ev1 ev2 ev3 ev4 ev5 ev6 ev7
	Slow bool   // the consumer is away for 1.2 s before it starts receiving
	Away bool   // bursty consumer: after the j-th event (every j) it is away for 25 s, longer than any timeout of the library
}

// piece of a script
type piece struct {
	b     []byte
	valid bool // must surface as exactly one frame event
}

type chanScript struct {
	pieces []piece
	endErr error
}

func (c *chanScript) bytes() []byte {
	var b []byte
	for _, p := range c.pieces {
		b = append(b, p.b...)
	}
	return b
}

// expected frames: "seq=<n> sys=<n> id=<n>"
func (c *chanScript) expected() []string {
	var out []string
	for _, p := range c.pieces {
		if p.valid {
			f, _ := ref.ParseOne(p.b)
			out = append(out, fmt.Sprintf("seq=%d sys=%d id=%d", f.Frame.Seq, f.Frame.Sys, f.Frame.ID))
		}
	}
	return out
}

func hb(i int) message.Message {
	return &common.MessageHeartbeat{Type: common.MAV_TYPE(i), Autopilot: 8, SystemStatus: 4, MavlinkVersion: 3}
}

func script(kind string, sys byte) *chanScript {
	s := &chanScript{}
	good := func(seq byte, m message.Message) piece {
		return piece{sx.FrameOf(true, seq, sys, 1, m, nil, 0, 0), true}
	}
	switch kind {
	case "mixed":
		bad := sx.FrameOf(true, 1, sys, 1, &common.MessagePing{Seq: 5}, nil, 0, 0)
		bad[len(bad)-1] ^= 0x40
		s.pieces = []piece{
			good(0, hb(1)),
			{[]byte{0x00, 0x13, 0xFC}, false},
			{bad, false},
			good(2, &common.MessagePing{Seq: 7, TimeUsec: 9}),
			{sx.FrameOf(false, 3, sys, 1, hb(2), nil, 0, 0), true},
		}
		s.endErr = errors.New("injected read failure")
	case "signed":
		signedOK := func(seq byte, ts uint64) piece {
			return piece{sx.FrameOf(true, seq, sys, 1, hb(int(seq)), sx.Key, 9, ts), true}
		}
		wrongKey := append([]byte{}, sx.Key...)
		wrongKey[5] ^= 1
		s.pieces = []piece{
			signedOK(0, 5000000),
			{sx.FrameOf(true, 1, sys, 1, hb(1), wrongKey, 9, 5000001), false},
			{sx.FrameOf(true, 7, sys, 1, hb(1), wrongKey, 9, 5000000+360000000), false}, // forged, one hour ahead: must not move the window
			{sx.FrameOf(true, 2, sys, 1, hb(2), nil, 0, 0), false},                      // unsigned
			{sx.FrameOf(false, 3, sys, 1, hb(3), nil, 0, 0), false},                     // v1
			signedOK(4, 5000002),
			{sx.FrameOf(true, 5, sys, 1, hb(5), sx.Key, 9, 1000), false}, // replayed: older than the window
			signedOK(6, 4500000), // reordered, inside the window
		}
		s.endErr = io.EOF
	case "short":
		s.pieces = []piece{good(0, hb(1)), good(1, &common.MessagePing{Seq: 1})}
		s.endErr = io.EOF
	case "junkfirst":
		// the very first bytes of a new peer are junk, followed by valid frames
		bad := sx.FrameOf(true, 1, sys, 1, &common.MessagePing{Seq: 5}, nil, 0, 0)
		bad[len(bad)-2] ^= 0x11
		s.pieces = []piece{{[]byte{0x00, 0x13}, false}, good(0, hb(1)), {bad, false}, good(2, &common.MessagePing{Seq: 7})}
		s.endErr = io.EOF
	case "truncated":
		t := sx.FrameOf(true, 1, sys, 1, &common.MessagePing{Seq: 1}, nil, 0, 0)
		s.pieces = []piece{good(0, hb(1)), {t[:len(t)-4], false}}
		s.endErr = io.ErrUnexpectedEOF
	case "after":
		s.pieces = []piece{good(7, hb(3))}
	case "burst":
		// more frames than any internal queue could hold (per-channel write queue is 64)
		for i := 0; i < 90; i++ {
			s.pieces = append(s.pieces, good(byte(i), &common.MessagePing{Seq: uint32(i)}))
		}
		s.endErr = io.EOF
	}
	return s
}

type exec struct {
	p               params
	log             sx.Log
	perChan         map[*gomavlib.Channel][]string
	order           []*gomavlib.Channel
	scripts         []*chanScript // per channel in opening order as expected by endpoint
	conns           []*vnet.FakeConn
	connOf          map[*gomavlib.Channel]int
	node            *gomavlib.Node
	nodeClosedFirst bool
	problems        []string
	finished        bool
	keyed           bool
	closeErrs       map[*gomavlib.Channel]error
	listener        *vnet.FakeListener
}

// feed builds a FakeConn delivering the script in 2 chunks at a chosen boundary.
func feed(name string, s *chanScript) *vnet.FakeConn {
	b := s.bytes()
	c := &vnet.FakeConn{Name: name}
	if len(b) > 0 {
		cuts := []int{len(b) / 3, len(b) / 2, len(b) - 3}
		cut := cuts[vmc.Choose(3, "chunk-boundary "+name)]
		if cut <= 0 || cut >= len(b) {
			cut = len(b) / 2
		}
		c.In = [][]byte{b[:cut], b[cut:]}
	}
	c.InErr = s.endErr
	c.InErrOnce = true
	return c
}

func (e *exec) Body() {
	sx.ResetGlobals()
	p := e.p
	n := &gomavlib.Node{Dialect: sx.Dialect(), OutVersion: gomavlib.V2, OutSystemID: 10, HeartbeatDisable: true}
	e.perChan = map[*gomavlib.Channel][]string{}
	e.connOf = map[*gomavlib.Channel]int{}
	e.closeErrs = map[*gomavlib.Channel]error{}
	switch p.Scen {
	case "ev1":
		e.scripts = []*chanScript{script("mixed", 21)}
		e.conns = []*vnet.FakeConn{feed("A", e.scripts[0])}
		n.Endpoints = []gomavlib.EndpointConf{gomavlib.EndpointCustom{ReadWriteCloser: e.conns[0]}}
	case "ev2":
		e.scripts = []*chanScript{script("mixed", 21), script("short", 22)}
		e.conns = []*vnet.FakeConn{feed("A", e.scripts[0]), feed("B", e.scripts[1])}
		n.Endpoints = []gomavlib.EndpointConf{gomavlib.EndpointCustom{ReadWriteCloser: e.conns[0]}, gomavlib.EndpointCustom{ReadWriteCloser: e.conns[1]}}
	case "ev3":
		e.keyed = true
		n.InKey = sx.V2Key(sx.Key)
		e.scripts = []*chanScript{script("signed", 21)}
		e.conns = []*vnet.FakeConn{feed("A", e.scripts[0])}
		n.Endpoints = []gomavlib.EndpointConf{gomavlib.EndpointCustom{ReadWriteCloser: e.conns[0]}}
	case "ev4":
		e.scripts = []*chanScript{script("truncated", 21), script("after", 21)}
		e.conns = []*vnet.FakeConn{feed("ser1", e.scripts[0]), feed("ser2", e.scripts[1])}
		e.conns[0].InErrOnce, e.conns[1].InErrOnce = false, false // a dead port keeps failing
		ss := &sx.SerialScript{Conns: []*vnet.FakeConn{{Name: "probe"}, e.conns[0], e.conns[1]}}
		ss.Install()
		n.Endpoints = []gomavlib.EndpointConf{gomavlib.EndpointSerial{Device: "/dev/ttyFAKE", Baud: 57600}}
	case "ev8", "ev8tcp":
		// server endpoint with two peers; the first datagram / segment of peer 0 starts with junk
		// and carries the whole script in one piece
		e.scripts = []*chanScript{script("junkfirst", 31), script("short", 32)}
		e.conns = []*vnet.FakeConn{
			{Name: "peer0", Remote: "9.9.9.1:1000", In: [][]byte{e.scripts[0].bytes()}, InErr: io.EOF},
			{Name: "peer1", Remote: "9.9.9.2:1000", In: [][]byte{e.scripts[1].bytes()}, InErr: io.EOF},
		}
		e.listener = &vnet.FakeListener{Name: "lst"}
		lst := e.listener
		vnet.ListenHook = func(network, address string) (net.Listener, error) { return lst, nil }
		if p.Scen == "ev8" {
			n.Endpoints = []gomavlib.EndpointConf{gomavlib.EndpointUDPServer{Address: "0.0.0.0:5600"}}
		} else {
			n.Endpoints = []gomavlib.EndpointConf{gomavlib.EndpointTCPServer{Address: "0.0.0.0:5600"}}
		}
	case "ev7":
		// the transport's write side fails once while its read side keeps working: frames
		// arriving afterwards must still be delivered exactly once, on a live channel
		e.scripts = []*chanScript{script("short", 21)}
		e.scripts[0].endErr = nil
		c := &vnet.FakeConn{Name: "A", WriteFailAt: 1, WriteErr: errors.New("injected write failure")}
		e.conns = []*vnet.FakeConn{c}
		n.Endpoints = []gomavlib.EndpointConf{gomavlib.EndpointCustom{ReadWriteCloser: c}}
	case "ev6":
		// a burst of 90 frames arrives in one piece while the consumer is away for a second
		e.scripts = []*chanScript{script("burst", 21)}
		c := &vnet.FakeConn{Name: "A", In: [][]byte{e.scripts[0].bytes()}, InErr: io.EOF, InErrOnce: true}
		e.conns = []*vnet.FakeConn{c}
		n.Endpoints = []gomavlib.EndpointConf{gomavlib.EndpointCustom{ReadWriteCloser: c}}
	case "ev5":
		e.scripts = []*chanScript{script("short", 21), script("short", 22)}
		e.scripts[0].endErr, e.scripts[1].endErr = nil, nil // stay open: only the node close ends them
		e.conns = []*vnet.FakeConn{feed("A", e.scripts[0]), feed("B", e.scripts[1])}
		n.Endpoints = []gomavlib.EndpointConf{gomavlib.EndpointCustom{ReadWriteCloser: e.conns[0]}, gomavlib.EndpointCustom{ReadWriteCloser: e.conns[1]}}
	}
	e.node = n
	if err := n.Initialize(); err != nil {
		e.problems = append(e.problems, "Initialize: "+err.Error())
		e.finished = true
		vmc.Finish()
	}
	consumerDone := false
	vmc.GoApp("consumer", func() {
		if p.Scen == "ev6" || p.Slow {
			// slow / bursty consumer: away for a while, then drains everything
			pause := time.Second
			if p.Slow {
				pause = 1200 * time.Millisecond
			}
			vmc.AddWake(vmc.Epoch.Add(pause), "consumer-pause")
			vmc.Await("consumer pause", func() bool { return vmc.NowNS() >= int64(pause) })
		}
		awayAfter, seen := 0, 0
		if p.Away {
			awayAfter = 1 + vmc.Choose(8, "consumer-away-after-event")
		}
		e.log.Consume(n, -1, func(ev gomavlib.Event) {
			seen++
			if seen == awayAfter {
				defer func() {
					until := vmc.NowNS() + int64(25*time.Second)
					vmc.AddWake(vmc.Now().Add(25*time.Second), "consumer-away")
					vmc.Await("consumer away", func() bool { return vmc.NowNS() >= until })
				}()
			}
			var ch *gomavlib.Channel
			var d string
			switch x := ev.(type) {
			case *gomavlib.EventChannelOpen:
				ch, d = x.Channel, "open"
			case *gomavlib.EventChannelClose:
				ch, d = x.Channel, "close"
				e.closeErrs[ch] = x.Error
			case *gomavlib.EventFrame:
				ch = x.Channel
				d = fmt.Sprintf("frame seq=%d sys=%d id=%d", x.Frame.GetSequenceNumber(), x.SystemID(), x.Message().GetID())
				if _, raw := x.Message().(*message.MessageRaw); raw {
					d += " RAW"
				}
			case *gomavlib.EventParseError:
				ch, d = x.Channel, "parse"
			case *gomavlib.EventStreamRequested:
				ch, d = x.Channel, "streamreq"
			default:
				e.problems = append(e.problems, fmt.Sprintf("unknown event %T", ev))
				return
			}
			if _, seen := e.perChan[ch]; !seen {
				e.order = append(e.order, ch)
			}
			e.perChan[ch] = append(e.perChan[ch], d)
		})
		consumerDone = true
	})
	if p.Scen == "ev7" {
		vmc.GoApp("peer-and-writer", func() {
			ps := e.scripts[0].pieces
			e.conns[0].Feed(ps[0].b)
			n.WriteMessageAll(hb(9)) //nolint  (this transport write fails)
			vmc.AddWake(vmc.Epoch.Add(time.Second), "later")
			vmc.Await("later", func() bool { return vmc.NowNS() >= int64(time.Second) })
			e.conns[0].Feed(ps[1].b)
			n.WriteMessageAll(hb(8)) //nolint
		})
	}
	if e.listener != nil {
		vmc.GoApp("peers", func() {
			for _, c := range e.conns {
				e.listener.Connect(c)
			}
		})
	}
	if p.Scen == "ev2" {
		// concurrent application writes
		vmc.GoApp("writer", func() {
			n.WriteMessageAll(hb(9))                       //nolint
			n.WriteMessageAll(&common.MessagePing{Seq: 3}) //nolint
		})
	}
	if p.Scen == "ev5" {
		vmc.GoApp("closer", func() {
			k := vmc.Choose(14, "close-after-steps")
			target := vmc.Steps() + 3*k
			vmc.AwaitUrgent("close-trigger", func() bool { return vmc.Steps() >= target || vmc.Idle() })
			e.nodeClosedFirst = true
			n.Close()
		})
		vmc.Await("consumer done", func() bool { return consumerDone })
	} else {
		// settle, then close the node
		horizon := 3 * time.Second
		if p.Scen == "ev4" {
			horizon = 7 * time.Second // two reconnect back-offs
		}
		if p.Away {
			horizon += 30 * time.Second // the consumer comes back after 25 s
		}
		vmc.AddWake(vmc.Now().Add(horizon), "settle")
		target := vmc.NowNS() + int64(horizon)
		vmc.Await("settled", func() bool { return vmc.NowNS() >= target })
		e.snapshotCheck()
		n.Close()
		vmc.Await("consumer done", func() bool { return consumerDone })
	}
	e.finalCheck()
	e.finished = true
	vmc.Finish()
}

// grammar checks one channel's event list; closedByNode: the close may be missing.
func (e *exec) grammar(name string, evs []string, want []string, mayMissClose bool, complete bool) {
	if len(evs) == 0 {
		return
	}
	if evs[0] != "open" {
		e.problems = append(e.problems, fmt.Sprintf("%s: first event is %q, not open: %v", name, evs[0], evs))
		return
	}
	var frames []string
	closed := false
	for i, ev := range evs[1:] {
		if closed {
			e.problems = append(e.problems, fmt.Sprintf("%s: event %q after the close event: %v", name, ev, evs))
			return
		}
		switch {
		case ev == "open":
			e.problems = append(e.problems, fmt.Sprintf("%s: second open event at %d: %v", name, i+1, evs))
			return
		case ev == "close":
			closed = true
		case strings.HasPrefix(ev, "frame "):
			frames = append(frames, strings.TrimPrefix(ev, "frame "))
		case ev == "parse" || ev == "streamreq":
		default:
			e.problems = append(e.problems, fmt.Sprintf("%s: unexpected event %q", name, ev))
		}
	}
	if !closed && !mayMissClose {
		e.problems = append(e.problems, fmt.Sprintf("%s: no close event although the channel ended before the node was closed: %v", name, evs))
	}
	// frames: exactly the valid frames of the script, in order (a prefix when the node was closed first)
	if complete {
		if fmt.Sprint(frames) != fmt.Sprint(want) {
			e.problems = append(e.problems, fmt.Sprintf("%s: frame events %v, valid frames of the script %v (all events: %v)", name, frames, want, evs))
		}
	} else {
		if len(frames) > len(want) || fmt.Sprint(frames) != fmt.Sprint(want[:len(frames)]) {
			e.problems = append(e.problems, fmt.Sprintf("%s: frame events %v are not a prefix of the valid frames of the script %v", name, frames, want))
		}
	}
}

// scriptOf maps a channel to the script it must deliver: the first channel on a custom
// transport (or the i-th connection of the serial endpoint) gets that transport's script,
// channels opened later on an exhausted custom transport deliver nothing.
func (e *exec) scriptOf(i int, ch *gomavlib.Channel) *chanScript {
	if e.p.Scen == "ev4" {
		if i < len(e.scripts) {
			return e.scripts[i]
		}
		return &chanScript{}
	}
	if e.listener != nil {
		// server endpoints: the channel's label names the peer
		for k, c := range e.conns {
			if strings.Contains(ch.String(), c.Remote) {
				return e.scripts[k]
			}
		}
		return nil
	}
	conf, ok := ch.Endpoint().Conf().(gomavlib.EndpointCustom)
	if !ok {
		return nil
	}
	for k, c := range e.conns {
		if conf.ReadWriteCloser == c {
			// how many earlier channels used this transport
			for _, prev := range e.order[:i] {
				if pc, ok := prev.Endpoint().Conf().(gomavlib.EndpointCustom); ok && pc.ReadWriteCloser == c {
					return &chanScript{}
				}
			}
			return e.scripts[k]
		}
	}
	return nil
}

func (e *exec) snapshotCheck() {}

func (e *exec) finalCheck() {
	nchan := len(e.order)
	wantChans := len(e.scripts)
	if e.p.Scen != "ev5" && nchan < wantChans {
		e.problems = append(e.problems, fmt.Sprintf("%d channels produced events, %d expected", nchan, wantChans))
	}
	// cross-channel attribution: every script's frames were delivered by exactly one channel
	seenScript := map[*chanScript]bool{}
	for i, ch := range e.order {
		if s := e.scriptOf(i, ch); s != nil && len(s.pieces) > 0 {
			seenScript[s] = true
		}
	}
	if e.p.Scen != "ev5" && len(seenScript) != wantChans {
		e.problems = append(e.problems, fmt.Sprintf("only %d of %d transports got a channel", len(seenScript), wantChans))
	}
	for i, ch := range e.order {
		evs := e.perChan[ch]
		name := fmt.Sprintf("channel %d", i)
		s := e.scriptOf(i, ch)
		if s == nil {
			e.problems = append(e.problems, fmt.Sprintf("%s is not attributed to a known endpoint: %v", name, evs))
			continue
		}
		endsByItself := s.endErr != nil
		switch e.p.Scen {
		case "ev5":
			e.grammar(name, evs, s.expected(), true, false)
		default:
			// the node is closed after everything settled: channels whose transport ended must have
			// been closed with the cause; the last channel of a reconnecting endpoint is closed by the node
			e.grammar(name, evs, s.expected(), !endsByItself, true)
			if endsByItself {
				if got, ok := e.closeErrs[ch]; ok && !errors.Is(got, s.endErr) && !(s.endErr == io.ErrUnexpectedEOF && got != nil) {
					e.problems = append(e.problems, fmt.Sprintf("%s: close event carries %v, the transport failed with %v", name, got, s.endErr))
				}
			}
		}
	}
	if e.p.Scen == "ev4" && nchan >= 2 {
		// one channel at a time: the second open only after the first close (consumer's global order)
		firstClose, secondOpen := -1, -1
		for i, ev := range e.log.Events {
			if ev == "close c0 err=unexpected EOF" || strings.HasPrefix(ev, "close c0") {
				if firstClose < 0 {
					firstClose = i
				}
			}
			if strings.HasPrefix(ev, "open c1") {
				secondOpen = i
			}
		}
		if firstClose < 0 || secondOpen < firstClose {
			e.problems = append(e.problems, fmt.Sprintf("serial endpoint: second channel opened before the first was closed: %v", e.log.Events))
		}
	}
}

func (e *exec) Check(r *vmc.Result) string {
	if r.End == "panic" {
		return r.PanicMsg
	}
	if len(e.problems) > 0 {
		return strings.Join(e.problems, "; ")
	}
	if e.finished {
		return ""
	}
	var stuck []string
	for _, t := range r.Threads {
		if !t.Done {
			stuck = append(stuck, fmt.Sprintf("T%d(%s) at %s", t.ID, t.Name, t.Pending))
		}
	}
	return "scenario did not finish (" + r.End + "): events so far " + fmt.Sprint(e.log.Events) + "; threads: " + strings.Join(stuck, ", ")
}

func (e *exec) Outcome(r *vmc.Result) string { return fmt.Sprint(r.End, e.log.Events) }

func variants(thorough bool) []sx.Variant {
	var out []sx.Variant
	type sv struct {
		s    string
		slow bool
		away bool
	}
	var svs []sv
	for _, s := range []string{"ev1", "ev2", "ev3", "ev4", "ev5", "ev6", "ev7", "ev8", "ev8tcp"} {
		svs = append(svs, sv{s, false, false})
	}
	svs = append(svs, sv{"ev1", true, false}, sv{"ev4", true, false}, sv{"ev3", true, false})
	svs = append(svs, sv{"ev1", false, true}, sv{"ev4", false, true})
	for _, x := range svs {
		s := x.s
		p := params{Scen: s, Slow: x.slow, Away: x.away}
		bound := 2
		if thorough {
			bound = 3
		}
		if s == "ev6" {
			bound-- // long executions (90 frames)
		}
		name := s
		if x.slow {
			name += "/slow"
		}
		if x.away {
			name += "/away"
			bound = 1
			if thorough {
				bound = 2
			}
		}
		out = append(out, sx.Variant{
			Name: name, Class: "events", MaxSteps: 20000, MaxTime: 10 * time.Minute, Bound: bound, Shards: 8,
			New: func() sx.Exec { return &exec{p: p} },
		})
	}
	return out
}

func main() { sx.Main("C10", variants) }
