//go:build vmc

// C13: a stalled or failing channel neither stalls the node nor dies silently. Engine B.
package main

import (
	"errors"
	"fmt"
	"io"
	"strings"
	"time"

	"github.com/bluenviron/gomavlib/v3"
	"github.com/bluenviron/gomavlib/v3/pkg/dialects/common"
	"github.com/bluenviron/gomavlib/v3/pkg/frame"
	"github.com/bluenviron/gomavlib/v3/pkg/message"
	"github.com/bluenviron/gomavlib/v3/pkg/vmc"
	"github.com/bluenviron/gomavlib/v3/pkg/vmc/vnet"

	"verif/ref"
	"verif/sx"
)

type params struct {
	Scenario string // stall | fail
	KindA    string // custom serial tcpclient
	Fault    string // write-error | raw-outside | v1-bigid | v1-bigid-frame | nodialect-raw
	Pos      int    // position of the bad item in the write history (0 first, 1 middle, 2 last)
	N        int    // number of writes to all in the stall scenario
	Flavour  string // stall: how the items reach the stalled channel: all | to | except | frame-to
	Rows     string // fail, thorough: "one" failure (deeper schedules) | "many" (2..4 in a row); "" = quick: 1 or 3
}

func (p params) name() string {
	if p.Scenario == "stall" {
		return fmt.Sprintf("stall/n%d/%s", p.N, p.Flavour)
	}
	if p.Scenario == "stallread" {
		return "stallread/" + p.KindA
	}
	if p.Rows != "" {
		return fmt.Sprintf("fail/%s/%s/pos%d/%s", p.KindA, p.Fault, p.Pos, p.Rows)
	}
	return fmt.Sprintf("fail/%s/%s/pos%d", p.KindA, p.Fault, p.Pos)
}

type exec struct {
	p        params
	log      sx.Log
	node     *gomavlib.Node
	a, b     *vnet.FakeConn
	chanOf   map[string]*gomavlib.Channel // by transport label order
	appDone  bool
	closeA   bool // close event for A seen
	problems []string
	finished bool
	blockAt  int
	failAt   int
	nbad     int
	thorough bool
	v2       bool
	evB      int
}

func ping(i int) *common.MessagePing { return &common.MessagePing{Seq: uint32(i), TimeUsec: 1} }

// stallread: a serial / TCP-client transport whose Write is stuck; then its read side fails.
// The channel must be closed and reported (and the endpoint reconnects), the other channel is
// unaffected, a later node Close returns.
func (e *exec) stallread() {
	p := e.p
	n := &gomavlib.Node{Dialect: sx.Dialect(), OutVersion: gomavlib.V2, OutSystemID: 10, HeartbeatDisable: true, IdleTimeout: 500 * time.Second, WriteTimeout: 500 * time.Second}
	e.a = &vnet.FakeConn{Name: "A", WriteBlockAt: 1 + vmc.Choose(2, "block-at")}
	a2 := &vnet.FakeConn{Name: "A2"}
	e.b = &vnet.FakeConn{Name: "B"}
	var epA gomavlib.EndpointConf
	if p.KindA == "serial" {
		s := &sx.SerialScript{Conns: []*vnet.FakeConn{{Name: "probe"}, e.a, a2}}
		s.Install()
		epA = gomavlib.EndpointSerial{Device: "/dev/ttyFAKE", Baud: 57600}
	} else {
		d := &sx.DialScript{Results: []*vnet.FakeConn{e.a, a2}}
		d.Install()
		epA = gomavlib.EndpointTCPClient{Address: "1.2.3.4:5600"}
	}
	n.Endpoints = []gomavlib.EndpointConf{epA, gomavlib.EndpointCustom{ReadWriteCloser: e.b}}
	if err := n.Initialize(); err != nil {
		e.problems = append(e.problems, "Initialize: "+err.Error())
		return
	}
	opens, closesA := 0, 0
	var closeErr error
	// the application may be away (longer than any timeout of the library) while the channel dies
	away := vmc.Choose(2, "consumer-away") == 1
	vmc.GoApp("consumer", func() {
		e.log.Consume(n, -1, func(ev gomavlib.Event) {
			switch x := ev.(type) {
			case *gomavlib.EventChannelOpen:
				opens++
				if away && opens == 2 {
					defer func() {
						until := vmc.NowNS() + int64(25*time.Second)
						vmc.AddWake(vmc.Now().Add(25*time.Second), "consumer-away")
						vmc.Await("consumer away", func() bool { return vmc.NowNS() >= until })
					}()
				}
			case *gomavlib.EventChannelClose:
				if _, isCustom := x.Channel.Endpoint().Conf().(gomavlib.EndpointCustom); !isCustom {
					closesA++
					closeErr = x.Error
				}
			}
		})
	})
	vmc.Await("both open", func() bool { return opens >= 2 })
	for i := 0; i < 4; i++ {
		n.WriteMessageAll(ping(i)) //nolint
	}
	e.a.FailRead(io.EOF)
	settle := 6 * time.Second
	if away {
		settle = 32 * time.Second
	}
	vmc.AddWake(vmc.Now().Add(settle), "settle")
	target := vmc.NowNS() + int64(settle)
	vmc.Await("settled", func() bool { return vmc.NowNS() >= target })
	if closesA == 0 {
		e.problems = append(e.problems, "the transport's read side failed while its writer is stuck in Write: no close event, the channel stays open and silent")
	} else if !errors.Is(closeErr, io.EOF) {
		e.problems = append(e.problems, fmt.Sprintf("close event carries %v, the transport failed with EOF", closeErr))
	}
	if !a2.Handed {
		e.problems = append(e.problems, "the endpoint did not reconnect after its channel died")
	}
	n.WriteMessageAll(ping(9)) //nolint
	e.appDone = true
	vmc.AddWake(vmc.Now().Add(time.Second), "settle2")
	t2 := vmc.NowNS() + int64(time.Second)
	vmc.Await("settled2", func() bool { return vmc.NowNS() >= t2 })
	if got := e.numbers(e.b.Written); fmt.Sprint(got) != fmt.Sprint([]uint32{0, 1, 2, 3, 9}) {
		e.problems = append(e.problems, fmt.Sprintf("healthy channel B received %v, submitted [0 1 2 3 9]", got))
	}
	if got := e.numbers(a2.Written); fmt.Sprint(got) != fmt.Sprint([]uint32{9}) {
		e.problems = append(e.problems, fmt.Sprintf("the reconnected channel received %v, only item 9 was written after it opened", got))
	}
	n.Close()
}

func (e *exec) Body() {
	sx.ResetGlobals()
	p := e.p
	if p.Scenario == "stallread" {
		e.stallread()
		e.finished = true
		vmc.Finish()
	}
	e.v2 = !(p.Fault == "v1-bigid" || p.Fault == "v1-bigid-frame")
	n := &gomavlib.Node{
		Dialect:          sx.Dialect(),
		OutVersion:       gomavlib.V2,
		OutSystemID:      10,
		HeartbeatDisable: true,
	}
	if !e.v2 {
		n.OutVersion = gomavlib.V1
	}
	if p.Fault == "nodialect-raw" {
		n.Dialect = nil
	}
	e.a = &vnet.FakeConn{Name: "A"}
	e.b = &vnet.FakeConn{Name: "B"}
	if p.Scenario == "stall" {
		e.blockAt = 1 + vmc.Choose(3, "block-at")
		e.a.WriteBlockAt = e.blockAt
		// B's peer sends frames meanwhile
		for i := 0; i < 3; i++ {
			e.b.In = append(e.b.In, sx.FrameOf(true, byte(i), 42, 1, ping(100+i), nil, 0, 0))
		}
	}
	// how many failures in a row (consecutive failing Write calls / unencodable items): 1..4
	e.nbad = 1
	if p.Scenario != "stall" {
		switch p.Rows {
		case "one":
			e.nbad = 1
		case "many":
			e.nbad = 2 + vmc.Choose(3, "failures-in-a-row")
		default:
			e.nbad = []int{1, 3}[vmc.Choose(2, "failures-in-a-row")] // quick: 1 or 3 in a row
		}
	}
	if p.Fault == "write-error" || p.Fault == "write-timeout" {
		e.failAt = 1 + vmc.Choose(3, "fail-at")
		e.a.WriteFailAt = e.failAt
		e.a.WriteFailN = e.nbad // consecutive failing calls
		e.a.WriteErr = errors.New("injected write failure")
		if p.Fault == "write-timeout" {
			e.a.WriteErr = vnet.ErrTimeout // a net.Error with Timeout() == true
		}
	}
	if p.Scenario == "stall" && p.KindA != "custom" {
		// the stalled transport's read side fails a little later: the channel must be closed and
		// reported although its writer is stuck inside Write
		e.a.InErr = nil
	}
	var epA gomavlib.EndpointConf
	switch p.KindA {
	case "serial":
		probe := &vnet.FakeConn{Name: "probe"}
		s := &sx.SerialScript{Conns: []*vnet.FakeConn{probe, e.a}}
		s.Install()
		epA = gomavlib.EndpointSerial{Device: "/dev/ttyFAKE", Baud: 57600}
	case "tcpclient":
		d := &sx.DialScript{Results: []*vnet.FakeConn{e.a}}
		d.Install()
		epA = gomavlib.EndpointTCPClient{Address: "1.2.3.4:5600"}
	default:
		epA = gomavlib.EndpointCustom{ReadWriteCloser: e.a}
	}
	n.Endpoints = []gomavlib.EndpointConf{epA, gomavlib.EndpointCustom{ReadWriteCloser: e.b}}
	e.node = n
	if err := n.Initialize(); err != nil {
		e.problems = append(e.problems, "Initialize: "+err.Error())
		e.finished = true
		vmc.Finish()
	}
	var chA, chB *gomavlib.Channel
	vmc.GoApp("consumer", func() {
		e.log.Consume(n, -1, func(ev gomavlib.Event) {
			switch x := ev.(type) {
			case *gomavlib.EventChannelOpen:
				if _, isCustom := x.Channel.Endpoint().Conf().(gomavlib.EndpointCustom); isCustom && (p.KindA != "custom" || x.Channel.Endpoint().Conf().(gomavlib.EndpointCustom).ReadWriteCloser == e.b) {
					chB = x.Channel
				} else {
					chA = x.Channel
				}
			case *gomavlib.EventChannelClose:
				if x.Channel == chA {
					e.closeA = true
				}
			case *gomavlib.EventFrame:
				if x.Channel == chB {
					e.evB++
				}
			}
		})
	})
	// the application writes once both channels are open
	vmc.Await("both open", func() bool { return chA != nil && chB != nil })
	var wantA, wantB []uint32 // ping numbers submitted to A / B, in order
	w := func(i int, all bool) {
		var err error
		toB := true
		if all {
			switch p.Flavour {
			case "to":
				// addressed to the stalled channel only; the healthy one gets its own copy
				err = n.WriteMessageTo(chA, ping(i))
				if err == nil {
					err = n.WriteMessageTo(chB, ping(i))
				}
			case "except":
				err = n.WriteMessageExcept(chB, ping(i)) // reaches A only
				if err == nil {
					err = n.WriteMessageExcept(chA, ping(i)) // reaches B only
				}
			case "frame-to":
				fa := &frame.V2Frame{SequenceNumber: byte(i), SystemID: 10, ComponentID: 1, Message: ping(i)}
				err = n.WriteFrameTo(chA, fa)
				if err == nil {
					err = n.WriteMessageTo(chB, ping(i))
				}
			default:
				err = n.WriteMessageAll(ping(i))
			}
			wantA = append(wantA, uint32(i))
		} else {
			err = n.WriteMessageTo(chB, ping(i))
		}
		_ = toB
		wantB = append(wantB, uint32(i))
		if err != nil {
			e.problems = append(e.problems, fmt.Sprintf("valid write %d refused: %v", i, err))
		}
	}
	bad := func() {
		switch p.Fault {
		case "raw-outside":
			n.WriteMessageTo(chA, &message.MessageRaw{ID: 999999, Payload: []byte{1}}) //nolint
		case "v1-bigid":
			n.WriteMessageTo(chA, &common.MessageProtocolVersion{Version: 1}) //nolint
		case "v1-bigid-frame":
			n.WriteFrameTo(chA, &frame.V1Frame{SystemID: 9, ComponentID: 9, Message: &message.MessageRaw{ID: 300, Payload: []byte{1}}}) //nolint
		case "nodialect-raw":
			n.WriteMessageTo(chA, &message.MessageRaw{ID: 4, Payload: []byte{1, 2, 3}}) //nolint
		}
	}
	if p.Scenario == "stall" {
		for i := 0; i < p.N; i++ {
			w(i, true)
			if i%14 == 0 {
				w(1000+i, false)
			}
		}
	} else {
		valid := func(i int) {
			if p.Fault == "nodialect-raw" {
				// without a dialect only raw frames can be written
				n.WriteFrameAll(&frame.V2Frame{SequenceNumber: byte(i), SystemID: 9, ComponentID: 9, Message: &message.MessageRaw{ID: 4, Payload: []byte{byte(i), 7}}, Checksum: 5}) //nolint
				wantA = append(wantA, uint32(i))
				wantB = append(wantB, uint32(i))
				return
			}
			w(i, true)
		}
		k := 0
		for pos := 0; pos < 3; pos++ {
			if pos == p.Pos {
				for b := 0; b < e.nbad; b++ {
					bad()
				}
			}
			valid(k)
			valid(k + 1)
			k += 2
		}
		if p.Pos == 3 {
			for b := 0; b < e.nbad; b++ {
				bad()
			}
		}
	}
	e.appDone = true
	// let the system settle: 5 s of virtual time (quiescent clock: everything that can run has run)
	vmc.AddWake(vmc.Now().Add(5*time.Second), "settle")
	target := vmc.NowNS() + int64(5*time.Second)
	vmc.Await("settled", func() bool { return vmc.NowNS() >= target })

	gotA := e.numbersTolerant(e.a)
	gotB := e.numbers(e.b.Written)
	if fmt.Sprint(gotB) != fmt.Sprint(wantB) {
		e.problems = append(e.problems, fmt.Sprintf("healthy channel B received %v, submitted %v", gotB, wantB))
	}
	if p.Scenario == "stall" {
		if e.evB != 3 {
			e.problems = append(e.problems, fmt.Sprintf("only %d of 3 frame events of the healthy channel were delivered while the other channel is stalled", e.evB))
		}
		if !subsequence(gotA, wantA) {
			e.problems = append(e.problems, fmt.Sprintf("stalled channel A received %v, not an order-preserving subsequence of %v", gotA, wantA))
		}
		if len(gotA) > e.blockAt-1 {
			e.problems = append(e.problems, fmt.Sprintf("stalled channel A: %d frames written although call %d blocks forever", len(gotA), e.blockAt))
		}
	} else {
		// either closed and reported, or every later valid write was delivered
		if !e.closeA {
			// the items in flight at the failing calls may each be lost or delivered after all (a
			// writer that repeats a call); everything else must arrive, once, in order
			var cand []int
			if p.Fault == "write-error" || p.Fault == "write-timeout" {
				cand = e.inFlightAtFailures(e.a, len(wantA))
			}
			ok := false
			for m := 0; m < 1<<uint(len(cand)) && !ok; m++ {
				lost := map[int]bool{}
				for b, idx := range cand {
					if m&(1<<uint(b)) != 0 {
						lost[idx] = true
					}
				}
				var want []uint32
				for i, x := range wantA {
					if !lost[i] {
						want = append(want, x)
					}
				}
				ok = fmt.Sprint(gotA) == fmt.Sprint(want)
			}
			if !ok {
				e.problems = append(e.problems, fmt.Sprintf("after %d failed write(s) in a row the channel stays open (no close event) but is silent: transport A received %v, valid writes submitted %v (items in flight at the failing calls: %v)", e.nbad, gotA, wantA, cand))
			}
		}
	}
	n.Close()
	e.finished = true
	vmc.Finish()
}

// numbersTolerant: transport A is the one the scenario damages: a failing or blocking Write call
// may leave a fragment of the frame in flight on the wire (when a frame reaches the transport in
// several calls); complete frames are recovered around it.
func (e *exec) numbersTolerant(c *vnet.FakeConn) []uint32 {
	if e.p.Scenario != "stall" && e.p.Fault != "write-error" && e.p.Fault != "write-timeout" {
		return e.numbers(c.Written) // the transport itself is healthy: whole frames only
	}
	frames, _ := sx.ScanWire(sx.Concat(c.Written), false)
	return e.numbersOf(frames)
}

// inFlightAtFailures: indices (into the submitted items) of the items that were being written
// when a Write call failed: the item after the frames completed so far plus the items given up
// earlier.
func (e *exec) inFlightAtFailures(c *vnet.FakeConn, nitems int) []int {
	var out []int
	calls := 0
	for _, io := range c.IO {
		if !io.Write {
			continue
		}
		calls++
		if !io.Done {
			idx := e.completeBeforeCall(c, calls) + len(out)
			if idx >= 0 && idx < nitems && (len(out) == 0 || out[len(out)-1] != idx) {
				out = append(out, idx)
			}
		}
	}
	if len(out) > 6 {
		out = out[:6]
	}
	return out
}

// completeBeforeCall: number of complete frames in the bytes accepted before the k-th Write call.
func (e *exec) completeBeforeCall(c *vnet.FakeConn, k int) int {
	calls, bytes := 0, 0
	for _, io := range c.IO {
		if !io.Write {
			continue
		}
		calls++
		if calls == k {
			break
		}
		if io.Done {
			bytes += io.N
		}
	}
	if calls < k {
		return -1 // the failing call was never reached
	}
	all := sx.Concat(c.Written)
	if bytes > len(all) {
		bytes = len(all)
	}
	frames, _ := sx.ScanWire(all[:bytes], false)
	return len(frames)
}

// numbers extracts the ping sequence numbers (or raw first payload byte) written to a transport.
func (e *exec) numbers(writes [][]byte) []uint32 {
	frames, prob := sx.ParseWire(writes)
	if prob != "" {
		e.problems = append(e.problems, prob)
	}
	return e.numbersOf(frames)
}

func (e *exec) numbersOf(frames []*ref.Frame) []uint32 {
	var out []uint32
	for _, f := range frames {
		if f.ID != 4 {
			e.problems = append(e.problems, fmt.Sprintf("a frame that was never validly submitted reached the wire (an item that cannot be encoded for the link was emitted in some form): %v", f))
			continue
		}
		if e.p.Fault == "nodialect-raw" {
			out = append(out, uint32(f.Payload[0]))
			continue
		}
		d := sx.DefByID(4)
		vals, _ := d.Decode(f.Payload, f.V2)
		// PING: time_usec u64, seq u32, target_system, target_component (declaration order)
		for i, fd := range d.Fields {
			if fd.Name == "seq" {
				out = append(out, uint32(vals[i].Bits[0]))
			}
		}
	}
	_ = ref.CRC16
	return out
}

func subsequence(a, b []uint32) bool {
	j := 0
	for _, x := range a {
		for j < len(b) && b[j] != x {
			j++
		}
		if j == len(b) {
			return false
		}
		j++
	}
	return true
}

func (e *exec) Check(r *vmc.Result) string {
	if r.End == "panic" {
		return r.PanicMsg
	}
	if len(e.problems) > 0 {
		return strings.Join(e.problems, "; ")
	}
	if e.finished {
		return ""
	}
	var stuck []string
	for _, t := range r.Threads {
		if !t.Done {
			stuck = append(stuck, fmt.Sprintf("T%d(%s) at %s", t.ID, t.Name, t.Pending))
		}
	}
	if !e.appDone {
		return "the application's Write calls block (node stalled by one channel): " + r.End + "; threads: " + strings.Join(stuck, ", ")
	}
	return "scenario did not finish: " + r.End + "; threads: " + strings.Join(stuck, ", ")
}

func (e *exec) Outcome(r *vmc.Result) string {
	return fmt.Sprint(r.End, len(e.a.Written), len(e.b.Written), e.closeA, e.log.Events)
}

func variants(thorough bool) []sx.Variant {
	var ps []params
	for _, fl := range []string{"all", "to", "except", "frame-to"} {
		ps = append(ps, params{Scenario: "stall", KindA: "custom", N: 70, Flavour: fl})
	}
	ps = append(ps, params{Scenario: "stallread", KindA: "serial"}, params{Scenario: "stallread", KindA: "tcpclient"})
	for _, kind := range []string{"custom", "serial", "tcpclient"} {
		for _, f := range []string{"write-error", "write-timeout", "raw-outside", "v1-bigid", "v1-bigid-frame", "nodialect-raw"} {
			for pos := 0; pos < 4; pos++ {
				if (f == "write-error" || f == "write-timeout") && pos > 0 {
					continue // the failing call is chosen inside the scenario
				}
				ps = append(ps, params{Scenario: "fail", KindA: kind, Fault: f, Pos: pos})
			}
		}
	}
	var out []sx.Variant
	for _, p := range ps {
		p := p
		bound := 2
		if p.Scenario == "stall" {
			bound = 1
		}
		if thorough {
			bound++
		}
		if thorough && p.Scenario == "fail" {
			// one failure at k = 3 (as deep as before), 2..4 failures in a row at k = 2
			pm := p
			pm.Rows = "many"
			out = append(out, sx.Variant{
				Name: pm.name(), Class: pm.Scenario, MaxSteps: 20000, MaxTime: 10 * time.Minute, Bound: 2, Shards: 4,
				New: func() sx.Exec { return &exec{p: pm, thorough: thorough} },
			})
			p.Rows = "one"
		}
		out = append(out, sx.Variant{
			Name: p.name(), Class: p.Scenario, MaxSteps: 20000, MaxTime: 10 * time.Minute, Bound: bound, Shards: 4,
			New: func() sx.Exec { return &exec{p: p, thorough: thorough} },
		})
	}
	return out
}

func main() { sx.Main("C13", variants) }
