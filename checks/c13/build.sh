#!/bin/bash
exec "$(dirname "$0")/../../bin/build-vmc" checks/c13 "$1"
