package main

import "reflect"

type reflectType = reflect.Type

func reflectTypeOf(x any) reflect.Type { return reflect.TypeOf(x) }
