// C09: originated frames. Engine A, model checking of the writer state machine (8 bit
// sequence counter): all write histories up to a depth over an operation alphabet, from
// several counter offsets, for every configuration, for streamwriter.Writer and the
// deprecated frame.Writer.WriteMessage; plus the complete configuration space of
// streamwriter.Writer.Initialize and Node.Initialize.
package main

import (
	"encoding/json"
	"fmt"
	"io"

	"github.com/bluenviron/gomavlib/v3"
	"github.com/bluenviron/gomavlib/v3/pkg/dialect"
	"github.com/bluenviron/gomavlib/v3/pkg/dialects/common"
	"github.com/bluenviron/gomavlib/v3/pkg/frame"
	"github.com/bluenviron/gomavlib/v3/pkg/message"
	"github.com/bluenviron/gomavlib/v3/pkg/streamwriter"

	"verif/bx"
	"verif/gm"
	"verif/ref"
)

// MessageWide is a user-defined message whose id needs all three id bytes of a v2 header.
type MessageWide struct {
	A uint32
	B uint8
}

// GetID implements message.Message.
func (*MessageWide) GetID() uint32 { return 0xABCDEF }

var theDialect = &dialect.Dialect{Version: 3, Messages: []message.Message{
	&common.MessageHeartbeat{}, &common.MessageSysStatus{}, &common.MessageProtocolVersion{}, &MessageWide{},
}}
var drw *dialect.ReadWriter
var key = make([]byte, 32)

// operation alphabet
const (
	opDecoded  = iota // decoded heartbeat
	opRaw             // raw message whose id is in the dialect
	opExt             // message with extension fields set
	opBigID           // id 300 (refused on v1)
	opOutside         // raw id outside the dialect (refused)
	opNil             // nil message (refused)
	opRawBigID        // already encoded (raw) message of the dialect with id 300 (refused on v1: the Node path hands raw messages to the writer)
	opWide            // decoded message with the 24-bit id 0xABCDEF (refused on v1)
	opRawWide         // raw message with that id
	nOps
)

var opNames = []string{"decoded", "raw", "ext", "id300", "outside", "nil", "rawid300", "id0xABCDEF", "rawid0xABCDEF"}

// bigOp: the message id does not fit a v1 header.
func bigOp(op int) bool { return op == opBigID || op == opRawBigID || op == opWide || op == opRawWide }

func opMessage(op int, i int) message.Message {
	switch op {
	case opDecoded:
		return &common.MessageHeartbeat{Type: common.MAV_TYPE(i % 7), CustomMode: uint32(i)}
	case opRaw:
		return &message.MessageRaw{ID: 0, Payload: []byte{1, 2, 3, 4, 5, 6, 7, 8, 9}}
	case opExt:
		return &common.MessageSysStatus{Load: uint16(i), OnboardControlSensorsPresentExtended: 0x01020304, OnboardControlSensorsHealthExtended: 5}
	case opBigID:
		return &common.MessageProtocolVersion{Version: 200}
	case opOutside:
		return &message.MessageRaw{ID: 999999, Payload: []byte{1}}
	case opRawBigID:
		return &message.MessageRaw{ID: 300, Payload: []byte{200, 0, 1}}
	case opWide:
		return &MessageWide{A: uint32(i) + 1, B: 7}
	case opRawWide:
		return &message.MessageRaw{ID: 0xABCDEF, Payload: []byte{1, 0, 0, 0, 9}}
	}
	return nil
}

type conf struct {
	Kind    string `json:"kind"` // streamwriter | framewriter
	Version int    `json:"version"`
	Sys     byte   `json:"sys"`
	Comp    byte   `json:"comp"`
	Key     bool   `json:"key"`
	Link    byte   `json:"link"`
}

func (c conf) valid() bool {
	return (c.Version == 1 || c.Version == 2) && c.Sys >= 1 && !(c.Key && c.Version == 1)
}

type hcase struct {
	Conf   conf  `json:"conf"`
	Offset int   `json:"offset"` // accepted writes before the history starts
	Ops    []int `json:"ops"`
}

type capture struct {
	bufs  [][]byte
	calls int
}

func (c *capture) Write(p []byte) (int, error) {
	c.calls++
	c.bufs = append(c.bufs, append([]byte{}, p...))
	return len(p), nil
}

type writer interface{ Write(message.Message) error }
type fwAdapter struct{ w *frame.Writer }

func (a fwAdapter) Write(m message.Message) error { return a.w.WriteMessage(m) } //nolint

func newWriter(c conf, cp *capture) (writer, error) {
	var k *frame.V2Key
	if c.Key {
		k = frame.NewV2Key(key)
	}
	if c.Kind == "framewriter" {
		fw := &frame.Writer{ByteWriter: cp, DialectRW: drw, OutVersion: frame.WriterOutVersion(c.Version), OutSystemID: c.Sys,
			OutComponentID: c.Comp, OutKey: k, OutSignatureLinkID: c.Link}
		if err := fw.Initialize(); err != nil {
			return nil, err
		}
		return fwAdapter{fw}, nil
	}
	fw := &frame.Writer{ByteWriter: cp, DialectRW: drw}
	if err := fw.Initialize(); err != nil {
		return nil, err
	}
	sw := &streamwriter.Writer{FrameWriter: fw, Version: streamwriter.Version(c.Version), SystemID: c.Sys, ComponentID: c.Comp, Key: k, SignatureLinkID: c.Link}
	if err := sw.Initialize(); err != nil {
		return nil, err
	}
	return sw, nil
}

// cloneWriter copies a writer (plain struct copy of the exported types) and redirects it to a
// fresh sink, so that a state reached by a long prefix can be branched from without
// replaying the prefix. Validated against full replays on a sample of histories.
func cloneWriter(w writer, cp *capture) writer {
	switch x := w.(type) {
	case fwAdapter:
		c := *x.w
		c.ByteWriter = cp
		return fwAdapter{&c}
	case *streamwriter.Writer:
		c := *x
		f := *x.FrameWriter
		f.ByteWriter = cp
		c.FrameWriter = &f
		return &c
	}
	panic("unknown writer")
}

// cloneFaithful tells whether a struct copy of the writer is an independent writer in the same
// state: two clones of the same writer must emit the same bytes for the same message, and so
// must a third one taken afterwards (a writer that keeps its counter behind a pointer fails
// this; its histories are then replayed from the start instead of branched from a clone).
func cloneFaithful(pre writer) (ok bool) {
	defer func() {
		if recover() != nil {
			ok = false
		}
	}()
	var seqs [3]byte
	for i := range seqs {
		cp := &capture{}
		w := cloneWriter(pre, cp)
		if err := w.Write(opMessage(opDecoded, 0)); err != nil {
			return false
		}
		var out []byte
		for _, b := range cp.bufs {
			out = append(out, b...)
		}
		f, ok := gm.ParseExactly(out)
		if !ok {
			return false
		}
		seqs[i] = f.Seq // (signed frames differ in their timestamps: the counter is the state)
	}
	return seqs[0] == seqs[1] && seqs[1] == seqs[2]
}

// lcase: two writers with the same configuration (two links) written to in an interleaved
// order: every writer counts its own frames only.
type lcase struct {
	Conf  conf  `json:"conf"`
	Order []int `json:"order"` // 0 = writer A, 1 = writer B
}

func evalLinks(c *lcase) string {
	var cps [2]*capture
	var ws [2]writer
	for i := range ws {
		cps[i] = &capture{}
		w, err := newWriter(c.Conf, cps[i])
		if err != nil {
			return "initialize: " + err.Error()
		}
		ws[i] = w
	}
	count := [2]int{}
	for step, who := range c.Order {
		before := len(cps[who].bufs)
		if err := ws[who].Write(opMessage(opDecoded, step)); err != nil {
			return fmt.Sprintf("write %d on link %d: %v", step, who, err)
		}
		var out []byte
		for _, b := range cps[who].bufs[before:] {
			out = append(out, b...)
		}
		f, ok := gm.ParseExactly(out)
		if !ok {
			return fmt.Sprintf("write %d on link %d: emitted bytes are not one frame", step, who)
		}
		if f.Seq != byte(count[who]) {
			return fmt.Sprintf("write %d: link %d emits sequence number %d, it has emitted %d frames before (the other link %d): counters are per link", step, who, f.Seq, count[who], count[1-who])
		}
		count[who]++
	}
	return ""
}

// evalHistory returns problem and number of transitions.
func evalHistory(c *hcase) (string, int) {
	return evalHistoryFrom(c, nil)
}

// evalHistoryFrom: when pre != nil it is a writer that already performed c.Offset accepted
// writes; it is cloned instead of replaying the prefix.
func evalHistoryFrom(c *hcase, pre writer) (string, int) {
	cp := &capture{}
	var w writer
	var err error
	if pre != nil {
		w = cloneWriter(pre, cp)
	} else {
		w, err = newWriter(c.Conf, cp)
	}
	if err != nil {
		return "initialize: " + err.Error(), 0
	}
	emitted := 0 // reference counter: advances exactly on emitted frames
	if pre != nil {
		emitted = c.Offset
	}
	wantComp := c.Conf.Comp
	if wantComp == 0 {
		wantComp = 1
	}
	step := func(op int, i int) string {
		before := len(cp.bufs)
		var err error
		if p := bx.Catch(func() { err = w.Write(opMessage(op, i)) }); p != "" {
			return p
		}
		refuse := op == opOutside || op == opNil || (bigOp(op) && c.Conf.Version == 1)
		if refuse {
			if err == nil {
				return fmt.Sprintf("write %d (%s) must be refused", i, opNames[op])
			}
			if len(cp.bufs) != before {
				return fmt.Sprintf("refused write %d (%s) emitted bytes", i, opNames[op])
			}
			return ""
		}
		if err != nil {
			return fmt.Sprintf("write %d (%s): %v", i, opNames[op], err)
		}
		var emittedBytes []byte
		for _, b := range cp.bufs[before:] {
			emittedBytes = append(emittedBytes, b...)
		}
		f, ok := gm.ParseExactly(emittedBytes)
		if !ok {
			return fmt.Sprintf("write %d (%s): emitted bytes are not one frame: % x", i, opNames[op], emittedBytes)
		}
		if f.V2 != (c.Conf.Version == 2) {
			return "wrong protocol version on the wire"
		}
		if f.Sys != c.Conf.Sys || f.Comp != wantComp {
			return fmt.Sprintf("write %d: sysid/compid %d/%d, configured %d/%d", i, f.Sys, f.Comp, c.Conf.Sys, wantComp)
		}
		if f.Compat != 0 {
			return "compatibility flags not zero"
		}
		wantInc := byte(0)
		if c.Conf.Key {
			wantInc = 1
		}
		if f.V2 && f.Incompat != wantInc {
			return fmt.Sprintf("incompat flags %d", f.Incompat)
		}
		if f.Seq != byte(emitted) {
			return fmt.Sprintf("write %d (%s): sequence number %d, but %d frames were emitted on this link before (want %d)", i, opNames[op], f.Seq, emitted, byte(emitted))
		}
		m := opMessage(op, i)
		mrw := drw.GetMessage(m.GetID())
		def, _ := ref.DefFromStruct(typeOf(mrw), m.GetID())
		if want := f.ComputeChecksum(def.CRCExtra()); want != f.Checksum {
			return fmt.Sprintf("write %d: checksum %04x, reference %04x", i, f.Checksum, want)
		}
		if f.ID != m.GetID() {
			return "wrong message id"
		}
		base, _ := def.Sizes()
		if !f.V2 && op != opRaw && op != opRawBigID && op != opRawWide && len(f.Payload) != base {
			return fmt.Sprintf("v1 payload has %d bytes, base size without extensions is %d", len(f.Payload), base)
		}
		if c.Conf.Key {
			if f.LinkID != c.Conf.Link || f.Sign(key) != f.Sig {
				return "signature block wrong"
			}
		}
		emitted++
		return ""
	}
	n := 0
	for i := 0; i < c.Offset && pre == nil; i++ {
		n++
		if d := step(opDecoded, i); d != "" {
			return "prefix: " + d, n
		}
	}
	for i, op := range c.Ops {
		n++
		if d := step(op, c.Offset+i); d != "" {
			return d, n
		}
	}
	return "", n
}

func typeOf(rw *message.ReadWriter) reflectType { return reflectTypeOf(rw.Message) }

type icase struct {
	Target string `json:"target"` // streamwriter | node
	Conf   conf   `json:"conf"`
}

type idleRWC struct{ ch chan struct{} }

func (b *idleRWC) Read(p []byte) (int, error)  { <-b.ch; return 0, io.EOF }
func (b *idleRWC) Write(p []byte) (int, error) { return len(p), nil }
func (b *idleRWC) Close() error                { close(b.ch); return nil }

func evalInit(c *icase) string {
	var err error
	if c.Target == "streamwriter" {
		_, err = newWriter(c.Conf, &capture{})
	} else {
		var k *frame.V2Key
		if c.Conf.Key {
			k = frame.NewV2Key(key)
		}
		n := &gomavlib.Node{
			Endpoints:        []gomavlib.EndpointConf{gomavlib.EndpointCustom{ReadWriteCloser: &idleRWC{make(chan struct{})}}},
			Dialect:          theDialect,
			OutVersion:       gomavlib.Version(c.Conf.Version),
			OutSystemID:      c.Conf.Sys,
			OutComponentID:   c.Conf.Comp,
			OutKey:           k,
			HeartbeatDisable: true,
		}
		err = n.Initialize()
		if err == nil {
			go func() {
				for range n.Events() {
				}
			}()
			n.Close()
		}
	}
	if c.Conf.valid() && err != nil {
		return "valid configuration refused: " + err.Error()
	}
	if !c.Conf.valid() && err == nil {
		return "invalid configuration (missing version / zero system id / key with v1) accepted at initialization"
	}
	return ""
}

func main() {
	r := bx.Start("C09", "model_checking")
	var err error
	drw, err = gm.DialectRW(theDialect)
	if err != nil {
		bx.Fatalf("%v", err)
	}
	r.Replayer = func(class string, raw json.RawMessage) (bool, string) {
		if class == "init" {
			var c icase
			json.Unmarshal(raw, &c)
			d := evalInit(&c)
			return d != "", d
		}
		if class == "links" {
			var c lcase
			json.Unmarshal(raw, &c)
			d := evalLinks(&c)
			return d != "", d
		}
		var c hcase
		json.Unmarshal(raw, &c)
		d, _ := evalHistory(&c)
		return d != "", d
	}
	if r.ReplayMode() {
		return
	}
	var hist, trans, replayed bx.Counter
	var states bx.Distinct

	// configuration space of Initialize (complete)
	ninit := 0
	for _, target := range []string{"streamwriter", "node"} {
		for _, v := range []int{0, 1, 2} {
			for _, sys := range []byte{0, 1, 255} {
				for _, comp := range []byte{0, 1, 200} {
					for _, k := range []bool{false, true} {
						c := icase{target, conf{Kind: "streamwriter", Version: v, Sys: sys, Comp: comp, Key: k, Link: 9}}
						ninit++
						if d := evalInit(&c); d != "" {
							r.Fail("init", fmt.Sprintf("%s %+v", target, c.Conf), c, d)
						}
					}
				}
			}
		}
	}

	// valid configurations for histories
	var confs []conf
	for _, kind := range []string{"streamwriter", "framewriter"} {
		for _, v := range []int{1, 2} {
			for _, sys := range []byte{1, 255} {
				for _, comp := range []byte{0, 200} {
					for _, k := range []bool{false, true} {
						if k && v == 1 {
							continue
						}
						for _, link := range []byte{0, 255} {
							if !k && link != 0 {
								continue
							}
							confs = append(confs, conf{kind, v, sys, comp, k, link})
						}
					}
				}
			}
		}
	}
	depth := r.Pick(4, 6)
	offsets := []int{0, 254, 255, 256, 510, 511}
	type job struct {
		c   conf
		off int
	}
	var jobs []job
	for ci, c := range confs {
		for _, o := range offsets {
			// quick: the full depth on the two main configurations, depth-1 on the others
			_ = ci
			jobs = append(jobs, job{c, o})
		}
	}
	// two links side by side: all interleavings of 6 writes over two writers of one configuration
	// (sequentially, before anything runs in parallel)
	for _, c := range confs {
		for m := 0; m < 64; m++ {
			lc := lcase{Conf: c}
			for b := 0; b < 6; b++ {
				lc.Order = append(lc.Order, (m>>uint(b))&1)
			}
			hist.Add(1)
			trans.Add(6)
			if prob := evalLinks(&lc); prob != "" {
				r.Fail("links", fmt.Sprintf("%s v%d key=%v %v", c.Kind, c.Version, c.Key, lc.Order), lc, prob)
			}
		}
	}
	bx.ParDo(len(jobs), func(ji int) {
		j := jobs[ji]
		d := depth
		if !(j.c.Sys == 1 && j.c.Comp == 0) {
			d = depth - 1
		}
		total := 1
		for i := 0; i < d; i++ {
			total *= nOps
		}
		// reach the offset once (the prefix itself is checked write by write)
		pc := hcase{Conf: j.c, Offset: j.off}
		if prob, n := evalHistory(&pc); prob != "" {
			trans.Add(n)
			r.Fail("history", fmt.Sprintf("%s v%d key=%v off=%d prefix", j.c.Kind, j.c.Version, j.c.Key, j.off), pc, prob)
			return
		}
		pre, _ := newWriter(j.c, &capture{})
		for i := 0; i < j.off; i++ {
			pre.Write(opMessage(opDecoded, i)) //nolint
		}
		trans.Add(j.off)
		if !cloneFaithful(pre) {
			pre = nil // every history replays its prefix
			replayed.Add(1)
		}
		for idx := 0; idx < total; idx++ {
			if idx%256 == 0 && r.Expired() {
				return
			}
			c := hcase{Conf: j.c, Offset: j.off, Ops: make([]int, d)}
			x := idx
			for i := d - 1; i >= 0; i-- {
				c.Ops[i] = x % nOps
				x /= nOps
			}
			prob, n := evalHistoryFrom(&c, pre)
			hist.Add(1)
			trans.Add(n)
			if idx%53 == 0 && pre != nil {
				// cross-validate the cloned start state against a full replay
				if p2, _ := evalHistory(&c); (p2 == "") != (prob == "") {
					// a writer whose behaviour depends on anything but its own history (state shared
					// between writers) shows up here; a defect of the cloning would not reproduce
					// when the case is re-executed and ends as a machinery error then
					r.Fail("history", fmt.Sprintf("%s v%d key=%v off=%d %v (not a function of the history)", c.Conf.Kind, c.Conf.Version, c.Conf.Key, c.Offset, c.Ops), c, "the same history gives different results on two writers: "+prob+p2)
				}
			}
			if prob != "" {
				// shortest failing prefix
				for l := 1; l <= len(c.Ops); l++ {
					cc := c
					cc.Ops = c.Ops[:l]
					if p2, _ := evalHistory(&cc); p2 != "" {
						c, prob = cc, p2
						break
					}
				}
				r.Fail("history", fmt.Sprintf("%s v%d key=%v off=%d %v", c.Conf.Kind, c.Conf.Version, c.Conf.Key, c.Offset, c.Ops), c, prob)
			}
			// state = (conf, emitted mod 256)
			em := j.off
			for _, op := range c.Ops {
				if !(op == opOutside || op == opNil || (bigOp(op) && j.c.Version == 1)) {
					em++
				}
				states.AddString(fmt.Sprint(j.c, em%256))
			}
			if ji == 3 && idx == total/2 {
				r.Sample(c)
			}
		}
	})
	// full-period runs: 600 accepted writes of each kind, and mixed
	for _, c := range confs {
		for op := 0; op < nOps; op++ {
			if op == opOutside || op == opNil || (bigOp(op) && c.Version == 1) {
				continue
			}
			hc := hcase{Conf: c, Ops: make([]int, 600)}
			for i := range hc.Ops {
				hc.Ops[i] = op
				if i%37 == 36 {
					hc.Ops[i] = opOutside // refused writes sprinkled in
				}
			}
			prob, n := evalHistory(&hc)
			hist.Add(1)
			trans.Add(n)
			if prob != "" {
				r.Fail("history", fmt.Sprintf("%s v%d key=%v long run of %s", c.Kind, c.Version, c.Key, opNames[op]), hc, prob)
			}
		}
	}
	r.Assumption = []string{
		"initialisation refusal is asserted for streamwriter.Writer and Node (the anchored mechanisms); the deprecated frame.Writer has no such validation and is only driven with valid configurations",
		"the node clause (per-link counters of originated frames across channels) is checked by the engine-B wire oracle",
	}
	r.Finish(map[string]any{
		"states":                        states.N(),
		"transitions":                   trans.N(),
		"traces_validated_against_impl": hist.N(),
		"jobs_replaying_prefix_because_struct_copy_is_not_a_clone": replayed.N(),
		"evaluations":         hist.N() + ninit,
		"distinct_nontrivial": states.N(),
		"rule":                "state = (configuration, frames emitted mod 256); all operation sequences of length <= depth over {decoded, raw, with extensions, id 300, id outside the dialect, nil} from offsets {0,254,255,256,510,511}; every emitted frame is parsed by the reference and compared with the configured identity, version, flags, checksum and the reference counter",
		"depth":               depth,
		"configurations":      len(confs),
		"init_configurations": ninit,
	})
}
