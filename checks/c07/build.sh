#!/bin/bash
# C07 is built against the rewritten tree so that the keyed writers read the virtual clock
exec "$(dirname "$0")/../../bin/build-vmc" checks/c07 "$1"
