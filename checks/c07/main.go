//go:build vmc

// C07: signature replay window. Engine A, explicit enumeration of all timestamp histories
// up to a depth over a boundary alphabet, on the real frame.Reader, against ref.Window.
package main

import (
	"bytes"
	"encoding/json"
	"errors"
	"fmt"
	"time"

	"github.com/bluenviron/gomavlib/v3/pkg/dialect"
	"github.com/bluenviron/gomavlib/v3/pkg/dialects/minimal"
	"github.com/bluenviron/gomavlib/v3/pkg/frame"
	"github.com/bluenviron/gomavlib/v3/pkg/message"
	"github.com/bluenviron/gomavlib/v3/pkg/streamwriter"
	"github.com/bluenviron/gomavlib/v3/pkg/vmc"
	"github.com/bluenviron/gomavlib/v3/pkg/vmc/vtime"

	"verif/bx"
	"verif/ref"
)

var key = func() []byte {
	k := make([]byte, 32)
	for i := range k {
		k[i] = byte(i*7 + 3)
	}
	return k
}()

const m48 = (uint64(1) << 48) - 1

var alphabet = []uint64{0, 1, 5, 999999, 1000000, 1000001, 1999999, 2000000, 2000001, 3000001,
	1 << 47, m48 - 1000001, m48 - 1000000, m48}

var alphabetWide = []uint64{0, 1, 2, 5, 999998, 999999, 1000000, 1000001, 1000002, 1999999, 2000000, 2000001,
	2000002, 3000001, 1 << 32, (1 << 32) + 1000001, 1 << 47, m48 - 2000001, m48 - 1000001, m48 - 1000000, m48 - 1, m48}

// history case
type hcase struct {
	Dialect bool     `json:"dialect"`
	TS      []uint64 `json:"ts"`
	// Forged[i]: frame i is signed with another key (must be refused and must not move the window)
	Forged []bool `json:"forged,omitempty"`
	// Link[i]: link id carried by frame i (default 4); the window is per reader, not per link id
	Link []byte `json:"link,omitempty"`
}

var otherKey = func() []byte {
	k := append([]byte{}, key...)
	k[7] ^= 0x10
	return k
}()

func signedFrame(ts uint64, seq byte, withDialect bool) []byte {
	return signedFrameK(ts, seq, withDialect, key)
}

func signedFrameK(ts uint64, seq byte, withDialect bool, signKey []byte) []byte {
	return signedFrameKL(ts, seq, withDialect, signKey, 4)
}

func signedFrameKL(ts uint64, seq byte, withDialect bool, signKey []byte, link byte) []byte {
	f := &ref.Frame{V2: true, Incompat: 1, Seq: seq, Sys: 7, Comp: 9, ID: 300000, Payload: []byte{1, 2, 3}, LinkID: link, Timestamp: ts}
	f.Checksum = 0x1234
	if withDialect {
		// HEARTBEAT of the minimal dialect: custom_mode u32, type, autopilot, base_mode, status, version
		f.ID = 0
		f.Payload = []byte{1, 0, 0, 0, 2, 3, 4, 5, 6}
		f.Checksum = f.ComputeChecksum(50)
	}
	f.Sig = f.Sign(signKey)
	return f.Bytes()
}

var drw = func() *dialect.ReadWriter {
	d := &dialect.ReadWriter{Dialect: minimal.Dialect}
	if err := d.Initialize(); err != nil {
		panic(err)
	}
	return d
}()

// runHistory feeds the history to a fresh reader; returns first disagreement.
func runHistory(c hcase) (string, int) {
	var stream bytes.Buffer
	for i, ts := range c.TS {
		link := byte(4)
		if i < len(c.Link) {
			link = c.Link[i]
		}
		if i < len(c.Forged) && c.Forged[i] {
			stream.Write(signedFrameKL(ts, byte(i), c.Dialect, otherKey, link))
			continue
		}
		stream.Write(signedFrameKL(ts, byte(i), c.Dialect, key, link))
	}
	r := &frame.Reader{ByteReader: &stream, InKey: frame.NewV2Key(key)}
	if c.Dialect {
		r.DialectRW = drw
	}
	if err := r.Initialize(); err != nil {
		return "initialize: " + err.Error(), 0
	}
	var w ref.Window
	for i, ts := range c.TS {
		fr, err := r.Read()
		if i < len(c.Forged) && c.Forged[i] {
			if err == nil {
				return fmt.Sprintf("step %d ts=%d: frame signed with another key accepted", i, ts), i
			}
			var re frame.ReadError
			if !errors.As(err, &re) {
				return fmt.Sprintf("step %d: refusal of a forged frame is not a non-fatal ReadError: %v", i, err), i
			}
			continue // the reference window ignores it
		}
		want := w.Accept(ts)
		if want {
			if err != nil {
				return fmt.Sprintf("step %d ts=%d (newest accepted before: %v): refused (%v) but is inside the window", i, ts, w, err), i
			}
			v2, ok := fr.(*frame.V2Frame)
			if !ok || v2.SignatureTimestamp != ts || v2.SequenceNumber != byte(i) {
				return fmt.Sprintf("step %d ts=%d: wrong frame returned %+v", i, ts, fr), i
			}
		} else {
			if err == nil {
				return fmt.Sprintf("step %d ts=%d: accepted but is more than 1000000 ticks older than newest %d", i, ts, w.Newest), i
			}
			var re frame.ReadError
			if !errors.As(err, &re) {
				return fmt.Sprintf("step %d ts=%d: refusal is not a non-fatal ReadError: %T %v", i, ts, err, err), i
			}
		}
	}
	return "", len(c.TS)
}

func main() {
	r := bx.Start("C07", "model_checking")
	r.Replayer = func(class string, raw json.RawMessage) (bool, string) {
		switch class {
		case "window", "window_forged", "window_links":
			var c hcase
			json.Unmarshal(raw, &c)
			d, _ := runHistory(c)
			return d != "", d
		case "writer_ts":
			d := writerCheck(r, true)
			return d != "", d
		}
		return false, ""
	}
	if r.ReplayMode() {
		return
	}

	var transitions, hist bx.Counter
	var states bx.Distinct
	explore := func(alpha []uint64, depth int, dial bool) {
		n := len(alpha)
		// enumerate all histories of exactly `depth` (their prefixes are the shorter ones; each
		// step of each history is compared, so all histories up to depth are covered)
		total := 1
		for i := 0; i < depth; i++ {
			total *= n
		}
		bx.ParDo(total, func(idx int) {
			if idx%4096 == 0 && r.Expired() {
				return
			}
			c := hcase{Dialect: dial, TS: make([]uint64, depth)}
			x := idx
			for i := depth - 1; i >= 0; i-- {
				c.TS[i] = alpha[x%n]
				x /= n
			}
			d, steps := runHistory(c)
			transitions.Add(steps)
			hist.Add(1)
			var w ref.Window
			for _, ts := range c.TS {
				w.Accept(ts)
				states.Add(w.Newest<<1 | 1)
			}
			if d != "" {
				// shortest failing prefix as witness
				_, at := runHistory(c)
				c.TS = c.TS[:at+1]
				class := "window"
				r.Fail(class, fmt.Sprint(c.Dialect, c.TS), c, d)
			}
			if idx == total/3 {
				r.Sample(c)
			}
		})
	}
	explore(alphabet, r.Pick(4, 6), false)
	explore(alphabet, r.Pick(3, 5), true)
	explore(alphabetWide, r.Pick(3, 5), false)
	// every single bit of the 48 bit range as "newest", probed by all neighbours
	var bits []uint64
	for b := 0; b < 48; b++ {
		v := uint64(1) << uint(b)
		bits = append(bits, v)
	}
	for _, nv := range bits {
		for _, d := range []int64{-1000002, -1000001, -1000000, -999999, -1, 0, 1, 1000000, 1000001} {
			p := int64(nv) + d
			if p < 0 || uint64(p) > m48 {
				continue
			}
			for _, pre := range [][]uint64{{}, {0}, {nv}} {
				c := hcase{TS: append(append([]uint64{}, pre...), nv, uint64(p), nv)}
				dd, steps := runHistory(c)
				transitions.Add(steps)
				hist.Add(1)
				if dd != "" {
					r.Fail("window", fmt.Sprint(false, c.TS), c, dd)
				}
			}
		}
	}

	// forged frames (signed with another key) interleaved: all histories of depth 3 over the
	// alphabet where every position may be forged
	{
		n := len(alphabet)
		total := n * n * n * 8
		bx.ParDo(total, func(idx int) {
			c := hcase{TS: make([]uint64, 3), Forged: make([]bool, 3)}
			x := idx
			for i := 0; i < 3; i++ {
				c.Forged[i] = x%2 == 1
				x /= 2
			}
			if !c.Forged[0] && !c.Forged[1] && !c.Forged[2] {
				return
			}
			for i := 0; i < 3; i++ {
				c.TS[i] = alphabet[x%n]
				x /= n
			}
			d, steps := runHistory(c)
			transitions.Add(steps)
			hist.Add(1)
			if d != "" {
				r.Fail("window_forged", fmt.Sprint(c.TS, c.Forged), c, d)
			}
		})
	}

	// frames carrying different link ids through one reader: the window is the reader's
	{
		n := len(alphabet)
		total := n * n * n * 8
		bx.ParDo(total, func(idx int) {
			c := hcase{TS: make([]uint64, 3), Link: make([]byte, 3)}
			x := idx
			mixed := false
			for i := 0; i < 3; i++ {
				c.Link[i] = []byte{4, 200}[x%2]
				if c.Link[i] != c.Link[0] {
					mixed = true
				}
				x /= 2
			}
			if !mixed {
				return
			}
			for i := 0; i < 3; i++ {
				c.TS[i] = alphabet[x%n]
				x /= n
			}
			d, steps := runHistory(c)
			transitions.Add(steps)
			hist.Add(1)
			if d != "" {
				r.Fail("window_links", fmt.Sprint(c.TS, c.Link), c, d)
			}
		})
	}

	if d := writerCheck(r, false); d != "" {
		r.Fail("writer_ts", "writer", struct{}{}, d)
	}

	r.Assumption = []string{
		"timestamps outside the boundary alphabets are not enumerated (2^48 values); the alphabet holds every boundary of the window arithmetic incl. the 48 bit ends",
		"writer clause: clock gaps from {0, 9.999us, 10us, 10.001us, 1s, 400d}, sequences of 4, starting at the virtual epoch 2026-01-01; a clock stepping backwards is outside the alphabet",
	}
	r.Finish(map[string]any{
		"states":                        states.N() + 1,
		"transitions":                   transitions.N(),
		"traces_validated_against_impl": hist.N(),
		"evaluations":                   hist.N(),
		"distinct_nontrivial":           states.N(),
		"rule":                          "every history of signed frames over the timestamp alphabet up to the depth bound is fed to a fresh keyed frame.Reader; each Read decision is compared with ref.Window; a state is the reference 'newest accepted timestamp'; non-trivial = distinct reference states reached",
		"alphabet":                      alphabet,
		"alphabet_wide":                 alphabetWide,
		"depth":                         r.Pick(4, 6),
	})
}

type capture struct{ bufs [][]byte }

func (c *capture) Write(p []byte) (int, error) {
	c.bufs = append(c.bufs, append([]byte{}, p...))
	return len(p), nil
}

// writerCheck: the keyed writers read the virtual clock (the time import of pkg/streamwriter
// and pkg/frame is substituted in this build): every sequence of 4 clock gaps over
// {0, 9.999 us, 10 us, 10.001 us, 1 s, 400 days} is played; each emitted timestamp must be
// floor((now - 2015-01-01 UTC) / 10 us) (at most one tick ahead per earlier frame) and never decrease.
func writerCheck(r *bx.Run, quiet bool) string {
	epoch := time.Date(2015, 1, 1, 0, 0, 0, 0, time.UTC)
	gaps := []time.Duration{0, 9999 * time.Nanosecond, 10 * time.Microsecond, 10001 * time.Nanosecond, time.Second, 400 * 24 * time.Hour}
	n := len(gaps)
	total := n * n * n * n
	for _, kind := range []string{"streamwriter", "framewriter"} {
		for idx := 0; idx < total; idx++ {
			seq := make([]time.Duration, 4)
			x := idx
			for i := range seq {
				seq[i] = gaps[x%n]
				x /= n
			}
			var problem string
			res := vmc.RunOnce(nil, vmc.Options{MaxTime: 100 * 365 * 24 * time.Hour, NoCache: true}, func() {
				cp := &capture{}
				fw := &frame.Writer{ByteWriter: cp, DialectRW: drw, OutVersion: frame.V2, OutSystemID: 3, OutKey: frame.NewV2Key(key), OutSignatureLinkID: 9}
				if err := fw.Initialize(); err != nil {
					problem = err.Error()
					return
				}
				sw := &streamwriter.Writer{FrameWriter: fw, Version: streamwriter.V2, SystemID: 3, Key: frame.NewV2Key(key), SignatureLinkID: 9}
				if err := sw.Initialize(); err != nil {
					problem = err.Error()
					return
				}
				var last uint64
				for i, g := range seq {
					if g > 0 {
						vtime.Sleep(g)
					}
					nb := len(cp.bufs)
					var msg message.Message = &minimal.MessageHeartbeat{Type: 1}
					var err error
					if kind == "streamwriter" {
						err = sw.Write(msg)
					} else {
						err = fw.WriteMessage(msg) //nolint
					}
					if err != nil {
						problem = kind + ": " + err.Error()
						return
					}
					var emitted []byte
					for _, b := range cp.bufs[nb:] {
						emitted = append(emitted, b...)
					}
					it, ok := ref.ParseOne(emitted)
					if !ok || it.Kind != ref.KindFrame || !it.Frame.Signed() {
						problem = kind + ": emitted bytes are not a signed frame"
						return
					}
					want := uint64(vtime.Now().Sub(epoch) / (10 * time.Microsecond))
					// the timestamp is the current time in 10 us units (truncated or rounded to the
					// nearest unit); a writer may push it forward by one tick per earlier frame of the
					// link to keep timestamps strictly increasing (the signing rule of the MAVLink
					// guide), never more, never backwards
					if ts := it.Frame.Timestamp; ts < want || ts > want+1+uint64(i) {
						problem = fmt.Sprintf("%s: write %d at virtual time %v (clock gaps %v): timestamp %d, want floor((now-2015-01-01)/10us) = %d (at most %d ticks ahead)", kind, i, vtime.Now().UTC(), seq, ts, want, i+1)
						return
					} else if ts < last {
						problem = fmt.Sprintf("%s: timestamp decreased %d -> %d", kind, last, ts)
						return
					} else {
						last = ts
					}
					if it.Frame.Sign(key) != it.Frame.Sig {
						problem = kind + ": signature does not cover the emitted timestamp"
						return
					}
				}
			})
			if res.End == "panic" || res.End == "divergence" {
				return res.PanicMsg
			}
			if problem != "" {
				return problem
			}
		}
	}
	return ""
}
