// C03: payload layout, sizes, CRC_EXTRA. Engine A: for all 408 shipped message types and
// 5125 generated user struct shapes, every field position / array element is swept over the
// boundary values of its type at three base assignments in both protocol versions; the
// encoder, decoder, CRC_EXTRA and sizes are compared with the spec-derived reference.
package main

import (
	"encoding/json"
	"fmt"
	"reflect"

	"github.com/bluenviron/gomavlib/v3/pkg/dialect"
	"github.com/bluenviron/gomavlib/v3/pkg/message"

	"verif/bx"
	"verif/checks/c03/shapes"
	"verif/gm"
	"verif/ref"
)

var all []*gm.MsgType
var byName = map[string]*gm.MsgType{}
var shapesAccepted, shapesRefused int

func load() {
	corpus, err := gm.Corpus()
	if err != nil {
		bx.Fatalf("%v", err)
	}
	all = corpus
	// user shapes through their own dialect
	accepted, refused := gm.AcceptedShapes(shapes.All)
	shapesRefused = len(refused)
	if len(accepted) == 0 {
		bx.Fatalf("the library refuses every one of the %d user-defined shapes: nothing to check", len(shapes.All))
	}
	drw := &dialect.ReadWriter{Dialect: &dialect.Dialect{Version: 3, Messages: accepted}}
	if err := drw.Initialize(); err != nil {
		bx.Fatalf("user shapes accepted one by one but refused as a dialect: %v", err)
	}
	shapesAccepted = len(accepted)
	for _, m := range accepted {
		t := reflect.TypeOf(m).Elem()
		def, err := ref.DefFromStruct(t, m.GetID())
		if err != nil {
			bx.Fatalf("%v", err)
		}
		rw := drw.GetMessage(m.GetID())
		if rw == nil {
			bx.Fatalf("no codec for shape %s", t.Name())
		}
		all = append(all, &gm.MsgType{Dialect: "shapes", Type: t, ID: m.GetID(), Def: def, RW: rw, DRW: drw, Proto: m})
	}
	for _, m := range all {
		byName[m.Name()] = m
	}
}

func evalStatic(mt *gm.MsgType) string {
	if got, want := mt.RW.CRCExtra(), mt.Def.CRCExtra(); got != want {
		return fmt.Sprintf("CRC_EXTRA %d, spec derives %d from the definition", got, want)
	}
	base, ext := mt.Def.Sizes()
	if ext > 255 {
		return fmt.Sprintf("payload size %d exceeds 255", ext)
	}
	ones := mt.New()
	ref.SetStruct(mt.Def, reflect.ValueOf(ones), gm.BaseVals(mt.Def, 1))
	if n := len(mt.RW.Write(ones, false).Payload); n != base {
		return fmt.Sprintf("v1 payload size %d, spec base size %d", n, base)
	}
	if n := len(mt.RW.Write(ones, true).Payload); n != ext && ext > 0 {
		return fmt.Sprintf("v2 payload size %d for an all-ones message, spec extended size %d", n, ext)
	}
	// v1 decoding accepts exactly the base size
	for _, n := range []int{base - 1, base, base + 1, ext} {
		if n < 0 {
			continue
		}
		_, err := mt.RW.Read(&message.MessageRaw{ID: mt.ID, Payload: make([]byte, n)}, false)
		if (err == nil) != (n == base) {
			return fmt.Sprintf("v1 Read of %d bytes: err=%v, base size is %d", n, err, base)
		}
	}
	return ""
}

func main() {
	r := bx.Start("C03", "exploration")
	load()
	r.Replayer = func(class string, raw json.RawMessage) (bool, string) {
		var c gm.CodecCase
		json.Unmarshal(raw, &c)
		mt := byName[c.Type]
		if mt == nil {
			return false, ""
		}
		var d string
		switch class {
		case "static":
			d = evalStatic(mt)
		case "golden":
			d = golden(mt)
		default:
			if p := bx.Catch(func() { d = gm.EvalCodec(mt, c.Vals, c.V2) }); p != "" {
				d = p
			}
		}
		return d != "", d
	}
	if r.ReplayMode() {
		return
	}

	var evals, elems bx.Counter
	var distinct bx.Distinct
	bases := []int{0, 2}
	if r.Thorough() {
		bases = []int{0, 1, 2}
	}
	bx.ParDo(len(all), func(i int) {
		mt := all[i]
		if r.Expired() {
			return
		}
		if d := evalStatic(mt); d != "" {
			r.Fail("static", mt.Name(), gm.CodecCase{Type: mt.Name()}, d)
		}
		if d := golden(mt); d != "" {
			r.Fail("golden", mt.Name(), gm.CodecCase{Type: mt.Name()}, d)
		}
		run := func(vals []ref.Val, v2 bool, what string) {
			evals.Add(1)
			var d string
			if p := bx.Catch(func() { d = gm.EvalCodec(mt, vals, v2) }); p != "" {
				d = p
			}
			if d != "" {
				r.Fail("layout", fmt.Sprintf("%s v2=%v %s", mt.Name(), v2, what), gm.CodecCase{Type: mt.Name(), V2: v2, Vals: vals}, d)
			}
		}
		for _, v2 := range []bool{false, true} {
			for _, bk := range bases {
				base := gm.BaseVals(mt.Def, bk)
				run(base, v2, fmt.Sprint("base", bk))
				for fi, f := range mt.Def.Fields {
					if f.Type == "char" {
						n := f.ArrayLen
						if n == 0 {
							n = 1
						}
						if bk == bases[0] && !v2 {
							elems.Add(n)
						}
						for _, s := range gm.Strings(n) {
							v := ref.CloneVals(base)
							v[fi].Str = s
							run(v, v2, fmt.Sprintf("base%d f%d=%q", bk, fi, s))
						}
						continue
					}
					bv := gm.Boundary(f.Type)
					if f.Enum {
						bv = gm.EnumBoundary(f.Type)
					}
					for j := range base[fi].Bits {
						if bk == bases[0] && !v2 {
							elems.Add(1)
						}
						for _, b := range bv {
							v := ref.CloneVals(base)
							v[fi].Bits[j] = b
							run(v, v2, fmt.Sprintf("base%d f%d[%d]=%x", bk, fi, j, b))
						}
					}
				}
			}
		}
		// thorough: pairs of wire-adjacent fields varied together (offset / width interplay)
		if r.Thorough() {
			lay := mt.Def.Layout()
			pv := func(f ref.FieldDef) []uint64 {
				if f.Type == "char" {
					return nil
				}
				b := gm.Boundary(f.Type)
				if len(b) > 5 {
					b = []uint64{b[1], b[2], b[3], b[6], b[len(b)-1]}
				}
				return b
			}
			for li := 0; li+1 < len(lay); li++ {
				f1, f2 := lay[li], lay[li+1]
				v1s, v2s := pv(f1), pv(f2)
				for _, v2 := range []bool{false, true} {
					base := gm.BaseVals(mt.Def, 0)
					for _, a := range v1s {
						for _, b := range v2s {
							v := ref.CloneVals(base)
							v[f1.Index].Bits[len(v[f1.Index].Bits)-1] = a
							v[f2.Index].Bits[0] = b
							run(v, v2, fmt.Sprintf("pair %s=%x %s=%x", f1.Name, a, f2.Name, b))
						}
					}
				}
			}
		}
		distinct.AddString(mt.Name())
		if i%600 == 0 {
			r.Sample(map[string]any{"type": mt.Name(), "crc_extra": mt.Def.CRCExtra(), "layout": layoutNames(mt.Def)})
		}
	})
	r.Assumption = []string{
		"user-defined structs: all shapes with <=2 fields over 45 field specs and all 3-field shapes over 7 specs (extension fields after base fields); larger user structs are represented by the 408 shipped types",
		"values: one element varied at a time over the boundary set of its type at 2 (quick) / 3 (thorough) base assignments, not the full cross product of field values",
		"golden CRC_EXTRA table: 222 standard messages, double-sourced (remembered c_library_v2 value == spec derivation on the pinned tree)",
	}
	r.Finish(map[string]any{
		"evaluations":                    evals.N(),
		"distinct_nontrivial":            distinct.N(),
		"rule":                           "per message type: CRC_EXTRA, sizes, and for every element x boundary value x base x version: Write == ref.Encode, Read(ref.Encode) == canonical value; distinct = message struct definitions covered completely",
		"elements":                       elems.N(),
		"shipped_types":                  len(all) - shapesAccepted,
		"user_shapes":                    shapesAccepted,
		"user_shapes_refused_by_library": shapesRefused,
		"golden_entries":                 len(ref.GoldenCRC),
	})
}

func layoutNames(d *ref.MsgDef) []string {
	var o []string
	for _, f := range d.Layout() {
		o = append(o, f.Type+" "+f.Name)
	}
	return o
}

var goldenByID = func() map[uint32]ref.GoldenEntry {
	m := map[uint32]ref.GoldenEntry{}
	for _, e := range ref.GoldenCRC {
		m[e.ID] = e
	}
	return m
}()

// golden: standard messages (those of the common dialect, which other dialects include by
// type alias) carry the CRC_EXTRA published with the C library.
func golden(mt *gm.MsgType) string {
	if mt.Dialect == "shapes" {
		return ""
	}
	e, ok := goldenByID[mt.ID]
	if !ok || e.Name != mt.Def.Name {
		return ""
	}
	if mt.RW.CRCExtra() != e.CRC {
		return fmt.Sprintf("%s: CRC_EXTRA %d, c_library_v2 publishes %d", e.Name, mt.RW.CRCExtra(), e.CRC)
	}
	return ""
}
