//go:build vmc

// C11: write fan-out. Engine B: two writer threads issue WriteMessage{All,To,Except} /
// WriteFrame{All,To,Except} over three channels (plus a closed and a foreign target) under
// all schedules within the deviation bound; every fake transport's byte stream is decoded
// by the reference and compared with the reference fan-out, per-writer FIFO, whole-frame
// writes, link identity, gapless per-link sequence numbers and signatures.
package main

import (
	"fmt"
	"io"
	"strings"
	"time"

	"github.com/bluenviron/gomavlib/v3"
	"github.com/bluenviron/gomavlib/v3/pkg/dialects/common"
	"github.com/bluenviron/gomavlib/v3/pkg/frame"
	"github.com/bluenviron/gomavlib/v3/pkg/message"
	"github.com/bluenviron/gomavlib/v3/pkg/vmc"
	"github.com/bluenviron/gomavlib/v3/pkg/vmc/vnet"
	"github.com/bluenviron/gomavlib/v3/pkg/vmc/vrand"

	"verif/ref"
	"verif/sx"
)

type params struct {
	Signed   bool
	V1       bool
	Incoming bool // incoming traffic on the channels meanwhile
	Closing  bool // channel 2's transport dies concurrently
	Many     bool // longer per-writer histories (FIFO)
	Decoded  bool // forwarded frames carry decoded messages (encoded by Node.encodeFrame in the caller)
	Requeue  bool // a reconnecting endpoint: items queued for the dead channel must not reach the new connection
	Reuse    bool // the application reuses one message struct (fill, send, fill again) over a transport that stalls for a while
}

func (p params) name() string {
	s := "fan"
	if p.Signed {
		s += "/signed"
	}
	if p.V1 {
		s += "/v1"
	}
	if p.Incoming {
		s += "/in"
	}
	if p.Closing {
		s += "/closing"
	}
	if p.Many {
		s += "/many"
	}
	if p.Decoded {
		s += "/decoded"
	}
	if p.Requeue {
		s += "/requeue"
	}
	if p.Reuse {
		s += "/reuse"
	}
	return s
}

type exec struct {
	p           params
	log         sx.Log
	conns       [3]*vnet.FakeConn
	dead        *vnet.FakeConn
	chans       [3]*gomavlib.Channel
	deadCh      *gomavlib.Channel
	deadClosed  bool
	problems    []string
	finished    bool
	writersDone int
	// submission log: per target channel index, items in submission order per writer
	want      [3][]string // multiset expected per channel: "w<writer>:<n>"
	perWriter [3]map[int][]string
}

// items are identified by PING seq (originated) or forwarded frame seq field
func ping(i int) *common.MessagePing { return &common.MessagePing{Seq: uint32(i), TimeUsec: 3} }

var decodedFrames bool

func fwd(i int, v2 bool) frame.Frame {
	if decodedFrames {
		// the frame carries a decoded message and the checksum of its canonical encoding
		m := &common.MessagePing{Seq: uint32(i), TimeUsec: 3}
		rf := ref.Frame{V2: v2, Seq: byte(100 + i), Sys: 77, Comp: 66, ID: 4, Payload: ref.MustEncodePing(uint32(i), v2)}
		ck := rf.ComputeChecksum(237)
		if v2 {
			return &frame.V2Frame{SequenceNumber: byte(100 + i), SystemID: 77, ComponentID: 66, Message: m, Checksum: ck}
		}
		return &frame.V1Frame{SequenceNumber: byte(100 + i), SystemID: 77, ComponentID: 66, Message: m, Checksum: ck}
	}
	raw := &message.MessageRaw{ID: 4, Payload: ref.MustEncodePing(uint32(i), v2)}
	if v2 {
		f := &frame.V2Frame{SequenceNumber: byte(100 + i), SystemID: 77, ComponentID: 66, Message: raw}
		f.Checksum = f.GenerateChecksum(237)
		return f
	}
	f := &frame.V1Frame{SequenceNumber: byte(100 + i), SystemID: 77, ComponentID: 66, Message: raw}
	f.Checksum = f.GenerateChecksum(237)
	return f
}

// requeue: serial endpoint; the first connection's Write blocks until the port is closed, so
// the items written to its channel pile up in the channel's queue; then the port dies. The
// endpoint reconnects (new connection, new channel): nothing addressed to the old channel and
// nothing written to all before the new channel opened may appear on the new connection.
func (e *exec) requeue() {
	c1 := &vnet.FakeConn{Name: "ser1", WriteBlockAt: 1}
	c2 := &vnet.FakeConn{Name: "ser2"}
	ss := &sx.SerialScript{Conns: []*vnet.FakeConn{{Name: "probe"}, c1, c2}}
	ss.Install()
	n := &gomavlib.Node{Dialect: sx.Dialect(), OutVersion: gomavlib.V2, OutSystemID: 10, OutComponentID: 20, HeartbeatDisable: true,
		Endpoints: []gomavlib.EndpointConf{gomavlib.EndpointSerial{Device: "/dev/ttyFAKE", Baud: 57600}}}
	if err := n.Initialize(); err != nil {
		e.problems = append(e.problems, "Initialize: "+err.Error())
		return
	}
	var chans []*gomavlib.Channel
	vmc.GoApp("consumer", func() {
		e.log.Consume(n, -1, func(ev gomavlib.Event) {
			if x, ok := ev.(*gomavlib.EventChannelOpen); ok {
				chans = append(chans, x.Channel)
			}
		})
	})
	vmc.Await("first channel", func() bool { return len(chans) >= 1 })
	old := chans[0]
	for i := 1; i <= 4; i++ {
		n.WriteMessageTo(old, ping(i))  //nolint
		n.WriteMessageAll(ping(10 + i)) //nolint
	}
	c1.FailRead(io.EOF) // the port dies with items still queued
	vmc.Await("second channel", func() bool { return len(chans) >= 2 || vmc.NowNS() > int64(20*time.Second) })
	vmc.AddWake(vmc.Now().Add(20*time.Second), "horizon")
	if len(chans) < 2 {
		e.problems = append(e.problems, "the serial endpoint did not reconnect")
		n.Close()
		return
	}
	n.WriteMessageTo(old, ping(5))       //nolint  closed channel: ignored
	n.WriteMessageTo(chans[1], ping(31)) //nolint
	n.WriteMessageAll(ping(32))          //nolint
	vmc.AddWake(vmc.Now().Add(2*time.Second), "settle")
	target := vmc.NowNS() + int64(2*time.Second)
	vmc.Await("settled", func() bool { return vmc.NowNS() >= target })
	frames, prob := sx.ParseConn(c2)
	if prob != "" {
		e.problems = append(e.problems, "ser2: "+prob)
	}
	var got []string
	for _, f := range frames {
		num, _ := ref.PingSeq(f.Payload, f.V2)
		got = append(got, fmt.Sprint(num))
	}
	if fmt.Sprint(got) != fmt.Sprint([]string{"31", "32"}) {
		e.problems = append(e.problems, fmt.Sprintf("the new connection carries %v, only items 31 and 32 were written after it opened (1..5 were addressed to the dead channel, 11..14 were written to all before it existed)", got))
	}
	if pr := sx.CheckOriginated(frames, 10, 20, true, nil, 0); pr != "" {
		e.problems = append(e.problems, "ser2: "+pr)
	}
	n.Close()
}

// reuse: the standard telemetry loop - one message struct, filled and written again and again -
// over two custom transports, one of which stalls inside its first Write for a chosen time
// (nothing, 1 s, longer than the node's WriteTimeout) and then completes. An item is what the
// struct held when Write* returned: every transport must carry 1..5 in order, each once, as
// whole frames, whatever the stall.
func (e *exec) reuse() {
	stall := []time.Duration{0, time.Second, 12 * time.Second, 25 * time.Second}[vmc.Choose(4, "first-write-stalls-for")]
	a := &vnet.FakeConn{Name: "A"}
	if stall > 0 {
		a.WriteStallAt, a.WriteStallFor = 1, stall
	}
	b := &vnet.FakeConn{Name: "B"}
	n := &gomavlib.Node{Dialect: sx.Dialect(), OutVersion: gomavlib.V2, OutSystemID: 10, OutComponentID: 20, HeartbeatDisable: true,
		Endpoints: []gomavlib.EndpointConf{gomavlib.EndpointCustom{ReadWriteCloser: a}, gomavlib.EndpointCustom{ReadWriteCloser: b}}}
	if err := n.Initialize(); err != nil {
		e.problems = append(e.problems, "Initialize: "+err.Error())
		return
	}
	opens := 0
	vmc.GoApp("consumer", func() {
		e.log.Consume(n, -1, func(ev gomavlib.Event) {
			if _, ok := ev.(*gomavlib.EventChannelOpen); ok {
				opens++
			}
		})
	})
	vmc.Await("channels open", func() bool { return opens >= 2 })
	m := &common.MessagePing{TimeUsec: 3}
	for i := 1; i <= 5; i++ {
		m.Seq = uint32(i)
		if err := n.WriteMessageAll(m); err != nil {
			e.problems = append(e.problems, fmt.Sprintf("WriteMessageAll %d: %v", i, err))
		}
	}
	m.Seq = 99 // the application goes on using its struct
	settle := stall + 3*time.Second
	vmc.AddWake(vmc.Now().Add(settle), "settle")
	target := vmc.NowNS() + int64(settle)
	vmc.Await("settled", func() bool { return vmc.NowNS() >= target })
	for _, c := range []*vnet.FakeConn{a, b} {
		frames, prob := sx.ParseConn(c)
		if prob != "" {
			e.problems = append(e.problems, c.Name+": "+prob)
			continue
		}
		var got []string
		for _, f := range frames {
			num, _ := ref.PingSeq(f.Payload, f.V2)
			got = append(got, fmt.Sprint(num))
		}
		if fmt.Sprint(got) != "[1 2 3 4 5]" {
			e.problems = append(e.problems, fmt.Sprintf("transport %s (first Write stalled for %v) carries %v, the application submitted 1 2 3 4 5 (one struct, refilled after every Write call returned)", c.Name, c.WriteStallFor, got))
		}
		if pr := sx.CheckOriginated(frames, 10, 20, true, nil, 0); pr != "" {
			e.problems = append(e.problems, c.Name+": "+pr)
		}
	}
	n.Close()
}

func (e *exec) Body() {
	sx.ResetGlobals()
	vrand.Next = 0x5C
	p := e.p
	decodedFrames = p.Decoded
	if p.Requeue {
		e.requeue()
		e.finished = true
		vmc.Finish()
	}
	if p.Reuse {
		e.reuse()
		e.finished = true
		vmc.Finish()
	}
	n := &gomavlib.Node{Dialect: sx.Dialect(), OutVersion: gomavlib.V2, OutSystemID: 10, OutComponentID: 20, HeartbeatDisable: true}
	if p.V1 {
		n.OutVersion = gomavlib.V1
	}
	if p.Signed {
		n.OutKey = sx.V2Key(sx.Key)
	}
	var eps []gomavlib.EndpointConf
	for i := range e.conns {
		e.conns[i] = &vnet.FakeConn{Name: fmt.Sprintf("T%d", i)}
		if p.Incoming {
			e.conns[i].In = [][]byte{sx.FrameOf(true, 0, byte(40+i), 1, ping(900+i), nil, 0, 0)}
		}
		eps = append(eps, gomavlib.EndpointCustom{ReadWriteCloser: e.conns[i]})
		e.perWriter[i] = map[int][]string{}
	}
	if p.Closing {
		e.conns[2].InErr = io.EOF
		e.conns[2].InErrOnce = true
	}
	// a fourth endpoint whose channel dies at once: writes naming it must be ignored
	e.dead = &vnet.FakeConn{Name: "dead", InErr: io.EOF, InErrOnce: true}
	eps = append(eps, gomavlib.EndpointCustom{ReadWriteCloser: e.dead})
	n.Endpoints = eps
	if err := n.Initialize(); err != nil {
		e.problems = append(e.problems, "Initialize: "+err.Error())
		e.finished = true
		vmc.Finish()
	}
	vmc.GoApp("consumer", func() {
		e.log.Consume(n, -1, func(ev gomavlib.Event) {
			switch x := ev.(type) {
			case *gomavlib.EventChannelOpen:
				rwc := x.Channel.Endpoint().Conf().(gomavlib.EndpointCustom).ReadWriteCloser
				for i := range e.conns {
					if rwc == e.conns[i] && e.chans[i] == nil {
						e.chans[i] = x.Channel
					}
				}
				if rwc == e.dead && e.deadCh == nil {
					e.deadCh = x.Channel
				}
			case *gomavlib.EventChannelClose:
				if x.Channel == e.deadCh {
					e.deadClosed = true
				}
			}
		})
	})
	vmc.Await("channels open", func() bool {
		return e.chans[0] != nil && e.chans[1] != nil && e.chans[2] != nil && e.deadClosed
	})
	v2 := !p.V1
	rec := func(writer, item int, targets ...int) {
		for _, t := range targets {
			e.perWriter[t][writer] = append(e.perWriter[t][writer], fmt.Sprint(item))
		}
	}
	// a foreign channel: an open channel of ANOTHER node (not a hand-made zero Channel, which no
	// caller could legitimately hold)
	foreignConn := &vnet.FakeConn{Name: "foreign"}
	n2 := &gomavlib.Node{Dialect: sx.Dialect(), OutVersion: gomavlib.V2, OutSystemID: 77, HeartbeatDisable: true,
		Endpoints: []gomavlib.EndpointConf{gomavlib.EndpointCustom{ReadWriteCloser: foreignConn}}}
	if err := n2.Initialize(); err != nil {
		e.problems = append(e.problems, "Initialize of the second node: "+err.Error())
		e.finished = true
		vmc.Finish()
	}
	var foreign *gomavlib.Channel
	vmc.GoApp("consumer2", func() {
		for {
			ev, ok := n2.Events().Recv2()
			if !ok {
				return
			}
			if x, isOpen := ev.(*gomavlib.EventChannelOpen); isOpen && foreign == nil {
				foreign = x.Channel
			}
		}
	})
	vmc.Await("foreign channel open", func() bool { return foreign != nil })
	reps := 1
	if p.Many {
		reps = 3
	}
	vmc.GoApp("W1", func() {
		for r := 0; r < reps; r++ {
			b := 10 + 10*r
			n.WriteMessageAll(ping(b + 1)) //nolint
			rec(1, b+1, 0, 1, 2)
			n.WriteMessageTo(e.chans[0], ping(b+2)) //nolint
			rec(1, b+2, 0)
			n.WriteFrameExcept(e.chans[1], fwd(b+3, v2)) //nolint
			rec(1, b+3, 0, 2)
			n.WriteMessageTo(e.deadCh, ping(b+4)) //nolint  closed channel: ignored
		}
		e.writersDone++
	})
	vmc.GoApp("W2", func() {
		for r := 0; r < reps; r++ {
			b := 50 + 10*r
			n.WriteFrameAll(fwd(b+4, v2)) //nolint
			rec(2, b+4, 0, 1, 2)
			n.WriteMessageExcept(e.chans[2], ping(b+5)) //nolint
			rec(2, b+5, 0, 1)
			n.WriteMessageTo(foreign, ping(b+6))     //nolint  foreign channel: ignored
			n.WriteFrameTo(e.chans[1], fwd(b+7, v2)) //nolint
			rec(2, b+7, 1)
		}
		e.writersDone++
	})
	vmc.Await("writers done", func() bool { return e.writersDone == 2 })
	vmc.AddWake(vmc.Now().Add(2*time.Second), "settle")
	target := vmc.NowNS() + int64(2*time.Second)
	vmc.Await("settled", func() bool { return vmc.NowNS() >= target })
	e.check()
	if len(foreignConn.Written) != 0 {
		e.problems = append(e.problems, fmt.Sprintf("the other node's transport received %d writes: items addressed to a foreign channel must be ignored", len(foreignConn.Written)))
	}
	n.Close()
	n2.Close()
	e.finished = true
	vmc.Finish()
}

func (e *exec) check() {
	for i, c := range e.conns {
		frames, prob := sx.ParseConn(c)
		if prob != "" {
			e.problems = append(e.problems, fmt.Sprintf("transport %d: %s", i, prob))
			continue
		}
		// per-link originated frames: identity, gapless sequence numbers, signature
		var key []byte
		if e.p.Signed {
			key = sx.Key
		}
		if p := sx.CheckOriginated(frames, 10, 20, !e.p.V1, key, 0x5C); p != "" {
			e.problems = append(e.problems, fmt.Sprintf("transport %d: %s", i, p))
		}
		got := map[int][]string{}
		for _, f := range frames {
			num, ok := ref.PingSeq(f.Payload, f.V2)
			if !ok || f.ID != 4 {
				e.problems = append(e.problems, fmt.Sprintf("transport %d: unexpected frame %v", i, f))
				continue
			}
			writer := 1
			if num >= 50 {
				writer = 2
			}
			forwarded := f.Sys == 77
			if forwarded {
				if want := f.ComputeChecksum(237); want != f.Checksum {
					e.problems = append(e.problems, fmt.Sprintf("transport %d: forwarded frame %d carries checksum %04x, its payload needs %04x", i, num, f.Checksum, want))
				}
				// forwarded frames keep their own header fields
				if f.Comp != 66 || f.Seq != byte(100+num) || f.Compat != 0 || f.Signed() {
					e.problems = append(e.problems, fmt.Sprintf("transport %d: forwarded frame %d changed its header: %v", i, num, f))
				}
			}
			got[writer] = append(got[writer], fmt.Sprint(num))
		}
		closing := e.p.Closing && i == 2
		for w := 1; w <= 2; w++ {
			want := e.perWriter[i][w]
			if closing {
				// the channel died and its transport was handed to a fresh channel, which the
				// except/to targets of the writers do not name: only the other channels are compared
				continue
			}
			if fmt.Sprint(got[w]) != fmt.Sprint(want) {
				e.problems = append(e.problems, fmt.Sprintf("transport %d: items of writer %d on the wire %v, reference fan-out in submission order %v", i, w, got[w], want))
			}
		}
	}
	// the dead transport is handed to a fresh channel (custom endpoints are re-provided), which
	// legitimately receives the all / except items; but the items addressed to the CLOSED channel
	// (x4) or to a foreign channel (x6) must not appear anywhere
	all := append([]*vnet.FakeConn{e.dead}, e.conns[:]...)
	for _, c := range all {
		frames, _ := sx.ParseConn(c)
		for _, f := range frames {
			if num, ok := ref.PingSeq(f.Payload, f.V2); ok && f.Sys == 10 && (num%10 == 4 && num < 50 || num%10 == 6 && num >= 50) {
				e.problems = append(e.problems, fmt.Sprintf("item %d was addressed to a closed / foreign channel but reached transport %s", num, c.Name))
			}
		}
	}
}

func subseq(a, b []string) bool {
	j := 0
	for _, x := range a {
		for j < len(b) && b[j] != x {
			j++
		}
		if j == len(b) {
			return false
		}
		j++
	}
	return true
}

func (e *exec) Check(r *vmc.Result) string {
	if r.End == "panic" {
		return r.PanicMsg
	}
	if len(e.problems) > 0 {
		return strings.Join(e.problems, "; ")
	}
	if e.finished {
		return ""
	}
	var stuck []string
	for _, t := range r.Threads {
		if !t.Done {
			stuck = append(stuck, fmt.Sprintf("T%d(%s) at %s", t.ID, t.Name, t.Pending))
		}
	}
	return "scenario did not finish (" + r.End + "); threads: " + strings.Join(stuck, ", ")
}

func (e *exec) Outcome(r *vmc.Result) string {
	var s []string
	for _, c := range e.conns {
		if c == nil {
			continue
		}
		fr, _ := sx.ParseConn(c)
		var ids []string
		for _, f := range fr {
			n, _ := ref.PingSeq(f.Payload, f.V2)
			ids = append(ids, fmt.Sprint(n))
		}
		s = append(s, strings.Join(ids, ","))
	}
	return r.End + " " + strings.Join(s, " | ")
}

func variants(thorough bool) []sx.Variant {
	ps := []params{{}, {Signed: true}, {V1: true}, {Incoming: true}, {Closing: true}, {Many: true}, {Signed: true, Incoming: true, Many: true},
		{Decoded: true}, {Decoded: true, V1: true}, {Requeue: true}, {Reuse: true}}
	var out []sx.Variant
	for _, p := range ps {
		p := p
		bound := 2
		if thorough && !p.Many {
			bound = 3 // (the three-round histories stay at k = 2: k = 3 on them alone takes over an hour)
		}
		out = append(out, sx.Variant{
			Name: p.name(), Class: "fanout", MaxSteps: 30000, MaxTime: 10 * time.Minute, Bound: bound, Shards: 8,
			New: func() sx.Exec { return &exec{p: p} },
		})
	}
	return out
}

func main() { sx.Main("C11", variants) }
