// C06: link signing. Engine A: signed frames x keys x every single-bit alteration of frame
// and key x {v1, unsigned, wrong key} through the real keyed reader with the two-way oracle
// evaluated on the bytes each call consumed (SHA-256 reference); keyed writers over all
// link ids.
package main

import (
	"encoding/json"
	"fmt"
	"reflect"

	"github.com/bluenviron/gomavlib/v3/pkg/dialect"
	"github.com/bluenviron/gomavlib/v3/pkg/dialects/common"
	"github.com/bluenviron/gomavlib/v3/pkg/frame"
	"github.com/bluenviron/gomavlib/v3/pkg/message"
	"github.com/bluenviron/gomavlib/v3/pkg/streamwriter"

	"verif/bx"
	"verif/gm"
	"verif/ref"
)

func keys() [][]byte {
	mk := func(f func(i int) byte) []byte {
		k := make([]byte, 32)
		for i := range k {
			k[i] = f(i)
		}
		return k
	}
	return [][]byte{
		mk(func(i int) byte { return 0 }),
		mk(func(i int) byte { return 0xFF }),
		mk(func(i int) byte { return byte(i) }),
		mk(func(i int) byte { return byte(i*i*7 + 13) }),
		mk(func(i int) byte { return byte(0xFD + i%2) }),
	}
}

type rcase struct {
	Dialect bool   `json:"dialect"`
	Key     []byte `json:"key"`      // reader key
	SignKey []byte `json:"sign_key"` // key the frame was signed with
	V2      bool   `json:"v2"`
	Signed  bool   `json:"signed"`
	PLen    int    `json:"plen"`
	ID      uint32 `json:"id"`
	Link    byte   `json:"link"`
	TS      uint64 `json:"ts"`
	Flip    int    `json:"flip"` // bit index into the first frame to flip, -1 none
	// clear the signed flag but keep the block
	Expect string `json:"expect"` // deliver | refuse | sound
}

var drw *dialect.ReadWriter
var tindex gm.TypeIndex
var crcExtraOf = map[uint32]byte{} // reference CRC_EXTRA of the messages of the common dialect
var baseSizeOf = map[uint32]int{}

func buildFrame(c *rcase, seq byte, ts uint64) []byte {
	p := make([]byte, c.PLen)
	for i := range p {
		p[i] = byte(i + 1)
	}
	f := ref.Frame{V2: c.V2, Seq: seq, Sys: 9, Comp: 8, ID: c.ID, Payload: p}
	if c.Signed {
		f.Incompat = 1
		f.LinkID = c.Link
		f.Timestamp = ts
	}
	crcExtra := crcExtraOf[c.ID] // 0 for ids outside the dialect (never validated)
	f.Checksum = f.ComputeChecksum(crcExtra)
	if c.Signed {
		f.Sig = f.Sign(c.SignKey)
	}
	return f.Bytes()
}

func evalReader(c *rcase) string {
	first := buildFrame(c, 1, c.TS)
	trailc := *c
	trailc.V2, trailc.Signed, trailc.SignKey = true, true, c.Key
	trail := buildFrame(&trailc, 2, c.TS) // equal timestamp: inside the window
	data := append(append([]byte{}, first...), trail...)
	framing := true
	if c.Flip >= 0 {
		data[c.Flip/8] ^= 1 << uint(c.Flip%8)
		if pos := c.Flip / 8; pos <= 2 {
			framing = false
		}
	}
	var d *dialect.ReadWriter
	if c.Dialect {
		d = drw
	}
	calls, prob := gm.RunStream(&gm.Transport{Data: data}, d, frame.NewV2Key(c.Key))
	if prob != "" {
		return prob
	}
	for i := range calls {
		if x := gm.CheckDelivered(&calls[i], data, tindex, c.Key); x != "" {
			return fmt.Sprintf("call %d: %s", i, x)
		}
	}
	switch c.Expect {
	case "deliver":
		if len(calls) != 3 || calls[0].Frame == nil || calls[1].Frame == nil {
			return fmt.Sprintf("validly signed frames not delivered: %v", describe(calls))
		}
	case "refuse":
		if !framing {
			return ""
		}
		if len(calls) < 2 || calls[0].Frame != nil || !calls[0].ReadErr {
			return fmt.Sprintf("frame must be refused with a parse error: %v", describe(calls))
		}
		if calls[0].To == len(first) {
			if len(calls) != 3 || calls[1].Frame == nil {
				return fmt.Sprintf("validly signed frame after a refused one not delivered: %v", describe(calls))
			}
		}
	}
	return ""
}

func describe(cs []gm.Call) []string {
	var o []string
	for i := range cs {
		o = append(o, cs[i].Describe())
	}
	return o
}

type wcase struct {
	Kind string `json:"kind"` // streamwriter | framewriter
	Key  []byte `json:"key"`
	Link byte   `json:"link"`
	Msg  int    `json:"msg"`
}

type capture struct{ bufs [][]byte }

func (c *capture) Write(p []byte) (int, error) {
	c.bufs = append(c.bufs, append([]byte{}, p...))
	return len(p), nil
}

func evalWriter(c *wcase) string {
	cp := &capture{}
	fw := &frame.Writer{ByteWriter: cp, DialectRW: drw, OutVersion: frame.V2, OutSystemID: 3, OutComponentID: 4,
		OutKey: frame.NewV2Key(c.Key), OutSignatureLinkID: c.Link}
	if err := fw.Initialize(); err != nil {
		return err.Error()
	}
	sw := &streamwriter.Writer{FrameWriter: fw, Version: streamwriter.V2, SystemID: 3, ComponentID: 4, Key: frame.NewV2Key(c.Key), SignatureLinkID: c.Link}
	if err := sw.Initialize(); err != nil {
		return err.Error()
	}
	msgs := []message.Message{
		&common.MessageHeartbeat{Type: 2, Autopilot: 3, BaseMode: 4, CustomMode: 5, SystemStatus: 6, MavlinkVersion: 7},
		&common.MessageSysStatus{Load: 77},
		&message.MessageRaw{ID: 0, Payload: []byte{1, 2, 3, 4, 5, 6, 7, 8, 9}},
		&common.MessageHeartbeat{},
	}
	var last uint64
	for i := 0; i < 3; i++ {
		var err error
		nbefore := len(cp.bufs)
		if c.Kind == "streamwriter" {
			err = sw.Write(msgs[c.Msg])
		} else {
			err = fw.WriteMessage(msgs[c.Msg]) //nolint
		}
		if err != nil {
			return "write: " + err.Error()
		}
		var emitted []byte
		for _, b := range cp.bufs[nbefore:] {
			emitted = append(emitted, b...)
		}
		f, ok := gm.ParseExactly(emitted)
		if !ok {
			return fmt.Sprintf("emitted bytes are not one frame: % x", emitted)
		}
		if !f.V2 || !f.Signed() {
			return "frame of a keyed writer does not carry the signed flag"
		}
		if f.Incompat != 1 {
			return fmt.Sprintf("incompat flags %02x", f.Incompat)
		}
		if f.LinkID != c.Link {
			return fmt.Sprintf("link id %d, configured %d", f.LinkID, c.Link)
		}
		if f.Sign(c.Key) != f.Sig {
			return "signature does not verify under the outgoing key by the reference formula"
		}
		if f.Timestamp < last {
			return "timestamp decreased"
		}
		last = f.Timestamp
		// a reader with the same key accepts it
	}
	var all []byte
	for _, b := range cp.bufs {
		all = append(all, b...)
	}
	calls, prob := gm.RunStream(&gm.Transport{Data: all}, drw, frame.NewV2Key(c.Key))
	if prob != "" || len(calls) != 4 || calls[0].Frame == nil || calls[1].Frame == nil || calls[2].Frame == nil {
		return fmt.Sprintf("frames of the keyed writer are not accepted by a reader with the same key: %s %v", prob, describe(calls))
	}
	return ""
}

func main() {
	r := bx.Start("C06", "exploration")
	var err error
	drw, err = gm.DialectRW(common.Dialect)
	if err != nil {
		bx.Fatalf("%v", err)
	}
	corpus, err := gm.Corpus()
	if err != nil {
		bx.Fatalf("%v", err)
	}
	tindex = gm.NewTypeIndex(corpus)
	for _, m := range common.Dialect.Messages {
		mt := tindex[reflect.TypeOf(m).Elem()]
		if mt == nil {
			bx.Fatalf("message %T of the common dialect is not in the corpus", m)
		}
		crcExtraOf[mt.ID] = mt.Def.CRCExtra()
		b, _ := mt.Def.Sizes()
		baseSizeOf[mt.ID] = b
	}
	if crcExtraOf[0] != 50 {
		bx.Fatalf("reference CRC_EXTRA of HEARTBEAT is %d", crcExtraOf[0])
	}
	r.Replayer = func(class string, raw json.RawMessage) (bool, string) {
		var d string
		if class == "writer" {
			var c wcase
			json.Unmarshal(raw, &c)
			d = evalWriter(&c)
		} else {
			var c rcase
			json.Unmarshal(raw, &c)
			if p := bx.Catch(func() { d = evalReader(&c) }); p != "" {
				d = p
			}
		}
		return d != "", d
	}
	if r.ReplayMode() {
		return
	}
	var evals bx.Counter
	var distinct bx.Distinct
	ks := keys()
	var cases []rcase
	tss := []uint64{0, 1, 999999, 1000000, 1 << 24, 1 << 40, 1<<48 - 1, 0xFDFEFDFEFDFE}
	plens := []int{0, 1, 9, 255}
	if r.Thorough() {
		plens = nil
		for n := 0; n <= 255; n += 5 {
			plens = append(plens, n)
		}
		plens = append(plens, 1, 9, 254)
	}
	for _, dial := range []bool{false, true} {
		for ki, k := range ks {
			for _, pl := range plens {
				for _, id := range []uint32{0, 4242, 1<<24 - 1} {
					if id == 0 && pl != 9 && dial {
						// with the dialect id 0 is decoded: any v2 length is legal, keep it
					}
					b := rcase{Dialect: dial, Key: k, SignKey: k, V2: true, Signed: true, PLen: pl, ID: id, Link: 7, TS: 5000, Flip: -1, Expect: "deliver"}
					// all link ids, boundary timestamps
					if ki < 2 || r.Thorough() {
						for l := 0; l < 256; l++ {
							c := b
							c.Link = byte(l)
							cases = append(cases, c)
						}
					}
					for _, ts := range tss {
						c := b
						c.TS = ts
						cases = append(cases, c)
					}
					// every single-bit flip of every byte of the signed frame
					n := len(buildFrame(&b, 1, b.TS))
					if pl < 255 || ki == 2 || r.Thorough() {
						for bit := 0; bit < n*8; bit++ {
							c := b
							c.Flip = bit
							c.Expect = "refuse"
							cases = append(cases, c)
						}
					}
					// every single-bit flip of the key
					if pl == 9 {
						for bit := 0; bit < 256; bit++ {
							c := b
							c.SignKey = append([]byte{}, k...)
							c.SignKey[bit/8] ^= 1 << uint(bit%8)
							c.Expect = "refuse"
							cases = append(cases, c)
						}
					}
					// signed with each other key
					for kj, k2 := range ks {
						if kj != ki {
							c := b
							c.SignKey = k2
							c.Expect = "refuse"
							cases = append(cases, c)
						}
					}
					// unsigned v2, v1
					c := b
					c.Signed = false
					c.Expect = "refuse"
					cases = append(cases, c)
					if id < 256 {
						c.V2 = false
						cases = append(cases, c)
					}
				}
			}
		}
	}
	// every message id (no id is exempt from the key): all ids of the dialect, 0..511 and
	// boundaries; otherwise valid unsigned v2 / v1 frames and frames signed with another key are
	// refused, validly signed ones delivered
	idset := map[uint32]bool{4242: true, 65535: true, 65536: true, 1<<24 - 1: true}
	for id := uint32(0); id < 512; id++ {
		idset[id] = true
	}
	for id := range crcExtraOf {
		idset[id] = true
	}
	for _, dial := range []bool{false, true} {
		for id := range idset {
			pl := 9
			if bs, known := baseSizeOf[id]; known && dial {
				pl = bs // an otherwise valid v1 frame needs the exact base size
			}
			b := rcase{Dialect: dial, Key: ks[0], SignKey: ks[0], V2: true, Signed: true, PLen: pl, ID: id, Link: 7, TS: 5000, Flip: -1, Expect: "deliver"}
			cases = append(cases, b)
			c := b
			c.SignKey = ks[1]
			c.Expect = "refuse"
			cases = append(cases, c)
			c = b
			c.Signed = false
			c.Expect = "refuse"
			cases = append(cases, c)
			if id < 256 {
				c.V2 = false
				cases = append(cases, c)
			}
		}
	}
	bx.ParDo(len(cases), func(i int) {
		c := cases[i]
		evals.Add(1)
		var d string
		if p := bx.Catch(func() { d = evalReader(&c) }); p != "" {
			d = p
		}
		if d != "" {
			r.Fail("reader_"+c.Expect, fmt.Sprintf("dial=%v key=%x.. v2=%v signed=%v plen=%d id=%d link=%d ts=%d flip=%d samekey=%v", c.Dialect, c.Key[:2], c.V2, c.Signed, c.PLen, c.ID, c.Link, c.TS, c.Flip, string(c.Key) == string(c.SignKey)), c, d)
		}
		distinct.AddString(fmt.Sprint(c.Dialect, c.Key[:3], c.SignKey[:3], c.V2, c.Signed, c.PLen, c.ID, c.Link, c.TS, c.Flip, c.Expect))
		if i%40000 == 0 {
			r.Sample(c)
		}
	})
	// writers
	var wcases []wcase
	for _, kind := range []string{"streamwriter", "framewriter"} {
		for _, k := range ks {
			for l := 0; l < 256; l++ {
				for m := 0; m < 4; m++ {
					wcases = append(wcases, wcase{kind, k, byte(l), m})
				}
			}
		}
	}
	bx.ParDo(len(wcases), func(i int) {
		c := wcases[i]
		evals.Add(1)
		var d string
		if p := bx.Catch(func() { d = evalWriter(&c) }); p != "" {
			d = p
		}
		if d != "" {
			r.Fail("writer", fmt.Sprintf("%s key=%x.. link=%d msg=%d", c.Kind, c.Key[:2], c.Link, c.Msg), c, d)
		}
	})
	r.Assumption = []string{
		"5 keys, payload lengths {0,1,9,255}, 3 message ids for the bit-flip sweeps (every id of the dialect, 0..511 and boundaries for the signed / other key / unsigned / v1 cases); alterations are single-bit flips (every bit of frame and key), not arbitrary forgeries",
		"the node clause (frames on the wire of a node with OutKey) is covered by the engine-B wire oracle (C11), not here",
	}
	r.Finish(map[string]any{
		"evaluations":         evals.N(),
		"distinct_nontrivial": distinct.N(),
		"rule":                "reader cases: (dialect on/off, key, signing key, version, signedness, payload length, id, link id, timestamp, flipped bit) each followed by a validly signed frame; oracle on consumed bytes: delivered => v2, signed flag, signature == SHA-256 reference under the reader key; untampered => delivered; tampered inside intact framing => parse error. writer cases: (writer kind, key, link id, message)",
		"reader_cases":        len(cases),
		"writer_cases":        len(wcases),
	})
}
