#!/bin/bash
exec "$(dirname "$0")/../../bin/build-enumreg" checks/c19 "$1"
