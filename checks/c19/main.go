// C19: enum values survive conversion to text and back. Engine A: a driver generated at check
// time from a type-checked scan of pkg/dialects/*/enum_*.go exercises every non-alias enum
// type: all constants, all flag combinations (<=16 flags) / all <=3-flag combinations,
// value grids over the uint64 range, and a rejection alphabet.
package main

import (
	"encoding/json"
	"fmt"
	"sort"
	"strconv"
	"strings"

	"verif/bx"
	"verif/gen/enumreg"
)

type ecase struct {
	Pkg   string `json:"pkg"`
	Enum  string `json:"enum"`
	Value uint64 `json:"value"`
	Text  string `json:"text,omitempty"` // rejection case
	Kind  string `json:"kind"`           // value | reject
}

var byName = map[string]*enumreg.Enum{}

func evalValue(e *enumreg.Enum, v uint64, want string) string {
	txt, err := e.Marshal(v)
	if err != nil {
		return fmt.Sprintf("MarshalText(%d): %v", v, err)
	}
	if want != "" && txt != want && !sameFlagSet(txt, want) {
		return fmt.Sprintf("value %d renders as %q, want %q", v, txt, want)
	}
	back, err := e.Unmarshal(txt)
	if err != nil {
		return fmt.Sprintf("value %d renders as %q, which does not parse: %v", v, txt, err)
	}
	if back != v {
		return fmt.Sprintf("value %d renders as %q, which parses to %d", v, txt, back)
	}
	if s := e.String(v); s != txt {
		return fmt.Sprintf("String() %q differs from MarshalText %q", s, txt)
	}
	return ""
}

// sameFlagSet: two renderings of a bitmask name the same flags (the statement says "the names
// of the flags it contains joined by ' | '", no order).
func sameFlagSet(a, b string) bool {
	if !strings.Contains(a, " | ") || !strings.Contains(b, " | ") {
		return false
	}
	x, y := strings.Split(a, " | "), strings.Split(b, " | ")
	sort.Strings(x)
	sort.Strings(y)
	return strings.Join(x, "\x00") == strings.Join(y, "\x00")
}

func evalReject(e *enumreg.Enum, txt string) string {
	v, err := e.Unmarshal(txt)
	if err == nil {
		return fmt.Sprintf("text %q is neither a name, a combination of names nor a number but parses to %d", txt, v)
	}
	return ""
}

func main() {
	r := bx.Start("C19", "exploration")
	for i := range enumreg.All {
		e := &enumreg.All[i]
		byName[e.Pkg+"."+e.Name] = e
	}
	r.Replayer = func(class string, raw json.RawMessage) (bool, string) {
		var c ecase
		json.Unmarshal(raw, &c)
		e := byName[c.Pkg+"."+c.Enum]
		if e == nil {
			return false, ""
		}
		var d string
		if p := bx.Catch(func() {
			if c.Kind == "reject" {
				d = evalReject(e, c.Text)
			} else {
				d = evalValue(e, c.Value, c.Text)
			}
		}); p != "" {
			d = p
		}
		return d != "", d
	}
	if r.ReplayMode() {
		return
	}
	if len(enumreg.All) < 200 {
		bx.Fatalf("only %d enum types found by the scan", len(enumreg.All))
	}
	var evals bx.Counter
	var distinct bx.Distinct
	bx.ParDo(len(enumreg.All), func(i int) {
		e := &enumreg.All[i]
		run := func(v uint64, want string, class string) {
			evals.Add(1)
			var d string
			if p := bx.Catch(func() { d = evalValue(e, v, want) }); p != "" {
				d = p
			}
			if d != "" {
				r.Fail(class, fmt.Sprintf("%s.%s %d", e.Pkg, e.Name, v), ecase{e.Pkg, e.Name, v, want, "value"}, e.Pkg+"."+e.Name+": "+d)
			}
			distinct.AddString(fmt.Sprint(e.Pkg, e.Name, v))
		}
		named := map[uint64]string{}
		for _, c := range e.Consts {
			if _, dup := named[c.Value]; !dup || c.Name < named[c.Value] {
				named[c.Value] = c.Name
			}
		}
		// Bitmask or ordinary enum is decided by behaviour alone (the shape of the generated source
		// - one file per enum, which helper builds the text - is not relied upon):
		//  * two defined single-bit flags whose union is not itself a defined constant render,
		//    OR-ed, as text containing " | "  => bitmask;
		//  * otherwise an undefined value that is not a union of defined flags renders as its
		//    decimal number => ordinary; if it does not => bitmask (enums with a single flag).
		defined := map[uint64]bool{}
		var single []enumreg.Const
		var allFlags uint64
		for _, c := range e.Consts {
			defined[c.Value] = true
			if c.Value != 0 && c.Value&(c.Value-1) == 0 {
				single = append(single, c)
				allFlags |= c.Value
			}
		}
		sort.Slice(single, func(a, b int) bool { return single[a].Value < single[b].Value })
		isBitmask, decided := false, false
		for a := 0; a < len(single) && !decided; a++ {
			for b := a + 1; b < len(single) && !decided; b++ {
				u := single[a].Value | single[b].Value
				if defined[u] {
					continue
				}
				txt, err := e.Marshal(u)
				isBitmask, decided = err == nil && strings.Contains(txt, " | "), true
			}
		}
		if !decided {
			// the smallest positive value that is neither defined nor made of defined flags only
			for u := uint64(1); u < 1<<20; u++ {
				if defined[u] || u&^allFlags == 0 {
					continue
				}
				txt, err := e.Marshal(u)
				isBitmask = !(err == nil && txt == strconv.FormatUint(u, 10))
				break
			}
		}
		bitmaskEnum := false
		defer func() { _ = bitmaskEnum }()
		bitmaskEnum = isBitmask
		if isBitmask {
			// flags = constants with exactly one bit set; (multi-bit constants are combinations)
			var flags []uint64
			flagName := map[uint64]string{}
			for _, c := range e.Consts {
				if c.Value != 0 && c.Value&(c.Value-1) == 0 {
					if _, ok := flagName[c.Value]; !ok {
						flags = append(flags, c.Value)
					}
					flagName[c.Value] = c.Name
				}
			}
			sort.Slice(flags, func(a, b int) bool { return flags[a] < flags[b] })
			render := func(v uint64) string {
				var names []string
				for _, f := range flags {
					if v&f != 0 {
						names = append(names, flagName[f])
					}
				}
				return strings.Join(names, " | ")
			}
			run(0, "", "bitmask")
			if len(flags) <= 16 {
				for m := 1; m < 1<<uint(len(flags)); m++ {
					var v uint64
					for k, f := range flags {
						if m&(1<<uint(k)) != 0 {
							v |= f
						}
					}
					run(v, render(v), "bitmask")
				}
			} else {
				var all uint64
				for a := 0; a < len(flags); a++ {
					all |= flags[a]
					run(flags[a], render(flags[a]), "bitmask")
					for b := a + 1; b < len(flags); b++ {
						run(flags[a]|flags[b], render(flags[a]|flags[b]), "bitmask")
						for c := b + 1; c < len(flags); c++ {
							v := flags[a] | flags[b] | flags[c]
							run(v, render(v), "bitmask")
						}
					}
				}
				run(all, render(all), "bitmask")
			}
		} else {
			// every defined constant renders as its name
			for v, n := range named {
				// several names may share a value: any of them is acceptable as rendering
				txt, _ := e.Marshal(v)
				ok := false
				for _, c := range e.Consts {
					if c.Value == v && c.Name == txt {
						ok = true
					}
				}
				if !ok {
					r.Fail("ordinary", fmt.Sprintf("%s.%s %d", e.Pkg, e.Name, v), ecase{e.Pkg, e.Name, v, n, "value"}, fmt.Sprintf("%s.%s: constant %s (%d) renders as %q, not as its name", e.Pkg, e.Name, n, v, txt))
				}
				run(v, "", "ordinary")
			}
			// unnamed values render as a decimal number
			var grid []uint64
			for v := uint64(0); v < uint64(r.Pick(4096, 65536)); v++ {
				grid = append(grid, v)
			}
			for b := 0; b < 64; b++ {
				grid = append(grid, 1<<uint(b), (1<<uint(b))-1)
				for c := b + 1; c < 64; c += 5 {
					grid = append(grid, 1<<uint(b)|1<<uint(c))
				}
			}
			for _, c := range e.Consts {
				grid = append(grid, c.Value+1, c.Value-1)
			}
			grid = append(grid, 1<<63-1, 1<<63, ^uint64(0))
			for _, v := range grid {
				if _, isNamed := named[v]; isNamed {
					continue
				}
				want := ""
				if v < 1<<63 {
					want = strconv.FormatUint(v, 10)
				}
				run(v, want, "ordinary")
			}
		}
		// rejection alphabet
		first := ""
		if len(e.Consts) > 0 {
			first = e.Consts[0].Name
		}
		rej := []string{"NOT_A_KNOWN_NAME", "1.5", "12abc", "--3", " | ", first + " |", "| " + first}
		if !bitmaskEnum {
			// (for a bitmask the empty text is the natural rendering of "no flag": not demanded either way)
			rej = append(rej, "", " ")
		}
		if first != "" {
			rej = append(rej, strings.ToLower(first), first+"|"+first, first+" | ", first+" | NOPE", " "+first)
		}
		for _, t := range rej {
			evals.Add(1)
			var d string
			if p := bx.Catch(func() { d = evalReject(e, t) }); p != "" {
				d = p
			}
			if d != "" {
				r.Fail("reject", fmt.Sprintf("%s.%s %q", e.Pkg, e.Name, t), ecase{e.Pkg, e.Name, 0, t, "reject"}, e.Pkg+"."+e.Name+": "+d)
			}
		}
		if i%60 == 0 {
			r.Sample(map[string]any{"enum": e.Pkg + "." + e.Name, "bitmask": e.Bitmask, "constants": len(e.Consts)})
		}
	})
	r.Assumption = []string{
		"unnamed values: 0..4095 (quick) / 0..65535, every single bit, bit pairs, all-ones prefixes, each constant +-1, 2^63-1, 2^63, 2^64-1 - not all 2^64 values",
		"values >= 2^63 are only required to round trip (their textual form is not asserted)",
		"generated (C18) enums are exercised by the C18 check",
	}
	r.Finish(map[string]any{
		"evaluations":         evals.N(),
		"distinct_nontrivial": distinct.N(),
		"rule":                "per non-alias enum type of the 19 shipped dialect packages (found by a type-checked scan at check time): marshal -> unmarshal identity and expected text for constants, flag combinations and value grids; rejection of a malformed-text alphabet; distinct = (type, value) pairs",
		"enum_types":          len(enumreg.All),
	})
}
