//go:build vmc

// C12: Close always terminates and releases everything. Engine B: the real node (source
// rewritten) under the controlled scheduler; Close is issued at every point of scripted
// scenarios (closing point j = number of scheduler steps after Initialize, enumerated
// completely) and the schedule around it is perturbed within the deviation bound.
package main

import (
	"errors"
	"fmt"
	"io"
	"net"
	"strings"
	"time"

	"github.com/bluenviron/gomavlib/v3"
	"github.com/bluenviron/gomavlib/v3/pkg/dialect"
	"github.com/bluenviron/gomavlib/v3/pkg/dialects/common"
	"github.com/bluenviron/gomavlib/v3/pkg/frame"
	"github.com/bluenviron/gomavlib/v3/pkg/message"
	"github.com/bluenviron/gomavlib/v3/pkg/vmc"
	"github.com/bluenviron/gomavlib/v3/pkg/vmc/vnet"

	"verif/sx"
)

type params struct {
	Kind        string // custom serial tcpclient tcpclient-pending tcpclient-fail tcpserver udpserver udpclient broadcast initfail baddialect
	Consumer    string // drain stop0 stop1
	Writer      string // none racing after
	WriteBlocks bool
	HB          bool
	SR          bool
	Incoming    bool
	SlowClose   bool // the transports take 2 s (virtual) to close after unblocking their I/O
	Late        bool // an ArduPilot heartbeat of a new sender arrives while Close is in progress
	NoClose     bool // dry run measuring the length of the Close-free run
	L           int
}

func (p params) name() string {
	s := fmt.Sprintf("%s/%s/%s", p.Kind, p.Consumer, p.Writer)
	if p.WriteBlocks {
		s += "/wblock"
	}
	if p.HB {
		s += "/hb"
	}
	if p.SR {
		s += "/sr"
	}
	if p.Incoming {
		s += "/in"
	}
	if p.Late {
		s += "/late"
	}
	if p.SlowClose {
		s += "/slowclose"
	}
	return s
}

type exec struct {
	p           params
	log         sx.Log
	node        *gomavlib.Node
	conns       []*vnet.FakeConn
	listener    *vnet.FakeListener
	pconn       *vnet.FakePacketConn
	pconnHanded bool
	custom      *vnet.FakeConn

	initErr           error
	baseSteps         int
	closeReturned     bool
	closeCalled       bool
	consumerEnded     bool
	consumerSawClosed bool
	writersDone       int
	writers           int
	afterDone         bool
	eventsClosed      bool
	problems          []string
	finished          bool
}

func incoming() [][]byte {
	hb := &common.MessageHeartbeat{Type: 1, Autopilot: 3, SystemStatus: 4, MavlinkVersion: 3}
	return [][]byte{
		sx.FrameOf(true, 0, 42, 1, hb, nil, 0, 0),
		append([]byte{0x00, 0x11}, sx.FrameOf(true, 1, 42, 1, &common.MessagePing{Seq: 9}, nil, 0, 0)...),
	}
}

func (e *exec) newConn(name string) *vnet.FakeConn {
	c := &vnet.FakeConn{Name: name}
	if e.p.Incoming {
		c.In = incoming()
	}
	if e.p.WriteBlocks {
		c.WriteBlockAt = 1
	}
	if e.p.SlowClose {
		c.CloseDelay = 2 * time.Second
	}
	e.conns = append(e.conns, c)
	return c
}

func (e *exec) Body() {
	sx.ResetGlobals()
	p := e.p
	j := 0
	if !p.NoClose {
		j = vmc.Choose(p.L+1, "close-point")
	}
	n := &gomavlib.Node{
		Dialect:             sx.Dialect(),
		OutVersion:          gomavlib.V2,
		OutSystemID:         10,
		HeartbeatDisable:    !p.HB,
		HeartbeatPeriod:     time.Second,
		StreamRequestEnable: p.SR,
	}
	switch p.Kind {
	case "custom":
		e.custom = e.newConn("custom")
		n.Endpoints = []gomavlib.EndpointConf{gomavlib.EndpointCustom{ReadWriteCloser: e.custom}}
	case "serial":
		probe := &vnet.FakeConn{Name: "probe"}
		c1 := e.newConn("ser1")
		if p.Incoming {
			c1.InErr = io.EOF // the port dies after the scripted input: reconnect back-off
		}
		c2 := e.newConn("ser2")
		s := &sx.SerialScript{Conns: []*vnet.FakeConn{probe, c1, c2}}
		e.conns = append(e.conns, probe)
		s.Install()
		n.Endpoints = []gomavlib.EndpointConf{gomavlib.EndpointSerial{Device: "/dev/ttyFAKE", Baud: 57600}}
	case "tcpclient", "udpclient":
		c1 := e.newConn("cli1")
		if p.Incoming {
			c1.InErr = io.EOF
		}
		d := &sx.DialScript{Results: []*vnet.FakeConn{c1, nil, e.newConn("cli2")}}
		d.Install()
		if p.Kind == "tcpclient" {
			n.Endpoints = []gomavlib.EndpointConf{gomavlib.EndpointTCPClient{Address: "1.2.3.4:5600"}}
		} else {
			n.Endpoints = []gomavlib.EndpointConf{gomavlib.EndpointUDPClient{Address: "1.2.3.4:5600"}}
		}
	case "tcpclient-pending":
		d := &sx.DialScript{Pending: map[int]bool{0: true, 1: true, 2: true, 3: true}}
		d.Install()
		n.Endpoints = []gomavlib.EndpointConf{gomavlib.EndpointTCPClient{Address: "1.2.3.4:5600"}}
	case "tcpclient-fail":
		d := &sx.DialScript{}
		d.Install()
		n.Endpoints = []gomavlib.EndpointConf{gomavlib.EndpointTCPClient{Address: "1.2.3.4:5600"}}
	case "tcpserver", "udpserver":
		e.listener = &vnet.FakeListener{Name: "lst"}
		vnet.ListenHook = func(network, address string) (net.Listener, error) { return e.listener, nil }
		if p.Kind == "tcpserver" {
			n.Endpoints = []gomavlib.EndpointConf{gomavlib.EndpointTCPServer{Address: "0.0.0.0:5600"}}
		} else {
			n.Endpoints = []gomavlib.EndpointConf{gomavlib.EndpointUDPServer{Address: "0.0.0.0:5600"}}
		}
	case "broadcast":
		e.pconn = &vnet.FakePacketConn{Name: "bc"}
		if p.Incoming {
			e.pconn.In = incoming()
		}
		vnet.ListenPacketHook = func(network, address string) (net.PacketConn, error) { return e.pconn, nil }
		n.Endpoints = []gomavlib.EndpointConf{gomavlib.EndpointUDPBroadcast{BroadcastAddress: "192.168.7.255:5600", LocalAddress: "192.168.7.1:5600"}}
	case "bc-badport":
		// a broadcast endpoint whose broadcast address has a port that is not a number: whether
		// Initialize accepts that is the library's business; if it refuses, nothing may stay open
		e.pconn = &vnet.FakePacketConn{Name: "bc"}
		vnet.ListenPacketHook = func(network, address string) (net.PacketConn, error) {
			e.pconnHanded = true
			return e.pconn, nil
		}
		n.Endpoints = []gomavlib.EndpointConf{gomavlib.EndpointUDPBroadcast{BroadcastAddress: "192.168.7.255:mavlink", LocalAddress: "192.168.7.1:5600"}}
	case "initfail":
		e.listener = &vnet.FakeListener{Name: "lst"}
		calls := 0
		vnet.ListenHook = func(network, address string) (net.Listener, error) {
			calls++
			if calls == 1 {
				return e.listener, nil
			}
			return nil, errors.New("listen: address already in use")
		}
		e.custom = e.newConn("custom")
		n.Endpoints = []gomavlib.EndpointConf{
			gomavlib.EndpointTCPServer{Address: "0.0.0.0:5600"},
			gomavlib.EndpointCustom{ReadWriteCloser: e.custom},
			gomavlib.EndpointTCPServer{Address: "0.0.0.0:5601"},
		}
	case "baddialect":
		e.custom = e.newConn("custom")
		n.Endpoints = []gomavlib.EndpointConf{gomavlib.EndpointCustom{ReadWriteCloser: e.custom}}
		n.Dialect = &dialect.Dialect{Version: 3, Messages: []message.Message{&common.MessageHeartbeat{}, &common.MessageHeartbeat{}}}
	}
	e.node = n
	e.initErr = n.Initialize()
	e.baseSteps = vmc.Steps()
	if p.Kind == "bc-badport" && e.initErr != nil {
		vmc.Await("lib threads done", vmc.LibThreadsDone)
		if e.pconnHanded && !e.pconn.IsClosed() {
			e.problems = append(e.problems, "Initialize failed ("+e.initErr.Error()+") and left the broadcast socket open")
		}
		e.finished = true
		vmc.Finish()
	}
	if p.Kind == "initfail" || p.Kind == "baddialect" {
		if e.initErr == nil {
			e.problems = append(e.problems, "Initialize succeeded although an endpoint / the dialect is invalid")
			e.finished = true
			vmc.Finish()
		}
		vmc.Await("lib threads done", vmc.LibThreadsDone)
		if e.listener != nil && !e.listener.IsClosed() {
			e.problems = append(e.problems, "failed Initialize left the first endpoint's listener open")
		}
		e.finished = true
		vmc.Finish()
	}
	if e.initErr != nil {
		e.problems = append(e.problems, "Initialize: "+e.initErr.Error())
		e.finished = true
		vmc.Finish()
	}

	// peers of server endpoints
	if e.listener != nil {
		vmc.GoApp("peers", func() {
			e.listener.Connect(e.newConn("peer1"))
			e.listener.Connect(e.newConn("peer2"))
		})
	}
	// consumer
	vmc.GoApp("consumer", func() {
		max := -1
		switch p.Consumer {
		case "stop0":
			max = 0
		case "stop1":
			max = 1
		}
		e.consumerSawClosed = e.log.Consume(n, max, nil)
		e.consumerEnded = true
	})
	// writers racing with Close
	if p.Writer == "racing" {
		e.writers = 1
		vmc.GoApp("writer", func() {
			hb := &common.MessageHeartbeat{Type: 2}
			n.WriteMessageAll(hb)                                                                                                               //nolint
			n.WriteFrameAll(&frame.V2Frame{SequenceNumber: 5, SystemID: 77, ComponentID: 1, Message: &common.MessagePing{Seq: 1}, Checksum: 1}) //nolint
			if len(e.log.Chans) > 0 {
				n.WriteMessageTo(e.log.Chans[0], hb)     //nolint
				n.WriteMessageExcept(e.log.Chans[0], hb) //nolint
			}
			e.writersDone++
		})
	}
	if p.NoClose {
		return
	}
	if p.Late && len(e.conns) > 0 {
		// an ArduPilot heartbeat of a new sender arrives while Close is in progress, at every
		// step offset: the stream-request module may already be stopped when the reader sees it
		k := vmc.Choose(16, "late-heartbeat-after-steps")
		vmc.GoApp("late-peer", func() {
			vmc.AwaitUrgent("close called", func() bool { return e.closeCalled || vmc.Idle() })
			target := vmc.Steps() + k
			vmc.AwaitUrgent("late-heartbeat", func() bool { return vmc.Steps() >= target || vmc.Idle() })
			hb := &common.MessageHeartbeat{Type: 1, Autopilot: 3, SystemStatus: 4, MavlinkVersion: 3}
			for _, c := range e.conns {
				if c.Handed || c == e.custom {
					c.Feed(sx.FrameOf(true, 0, 99, 1, hb, nil, 0, 0))
				}
			}
		})
	}
	vmc.GoApp("closer", func() {
		target := e.baseSteps + j
		// the trigger also fires when the system goes idle or 3 s of virtual time have passed
		// (closing points beyond the end of this particular run)
		vmc.AddWake(vmc.Epoch.Add(3*time.Second), "close-trigger")
		vmc.AwaitUrgent("close-trigger", func() bool {
			return vmc.Steps() >= target || vmc.Idle() || vmc.NowNS() >= int64(3*time.Second)
		})
		e.closeCalled = true
		n.Close()
		// "when it returns ... listening ports and accepted connections are released": checked at
		// the very moment Close returns. (Goroutines: a channel goroutine signals the wait group
		// one statement before it returns, so "has ended" is checked as "ends without any further
		// stimulus" below, not at this instant.)
		for _, c := range e.conns {
			if c != e.custom && c.Handed && !c.IsClosed() {
				e.problems = append(e.problems, "connection "+c.Name+" is still open at the moment Close returns")
			}
			if c.CloseCalls > c.CloseReturned {
				e.problems = append(e.problems, "connection "+c.Name+" is still being closed (its Close call has not returned) at the moment Node.Close returns: not released yet")
			}
		}
		if e.custom != nil && e.chOpened(e.custom) && e.custom.CloseCalls == 0 {
			e.problems = append(e.problems, "the custom transport has not been closed at the moment Close returns")
		}
		if e.listener != nil && !e.listener.IsClosed() {
			e.problems = append(e.problems, "listener still open at the moment Close returns")
		}
		if e.pconn != nil && !e.pconn.IsClosed() {
			e.problems = append(e.problems, "packet conn still open at the moment Close returns")
		}
		e.closeReturned = true
	})
	vmc.Await("close returned", func() bool { return e.closeReturned })
	// Write calls following the close return
	hb := &common.MessageHeartbeat{Type: 2}
	n.WriteMessageAll(hb)                                                                                                      //nolint
	n.WriteFrameAll(&frame.V2Frame{SystemID: 77, ComponentID: 1, Message: &common.MessagePing{Seq: 1}})                        //nolint
	n.WriteMessageExcept(nil, hb)                                                                                              //nolint
	n.WriteFrameTo(nil, &frame.V2Frame{SystemID: 77, ComponentID: 1, Message: &message.MessageRaw{ID: 4, Payload: []byte{1}}}) //nolint
	e.afterDone = true
	// the event channel is closed: ranging over it ends
	vmc.Await("consumer ended", func() bool { return e.consumerEnded })
	if !e.consumerSawClosed {
		for {
			ev, ok := n.Events().Recv2()
			if !ok {
				break
			}
			e.log.Events = append(e.log.Events, "late:"+e.log.Describe(ev))
		}
	}
	e.eventsClosed = true
	vmc.Await("writers done", func() bool { return e.writersDone == e.writers })
	vmc.Await("lib threads done", vmc.LibThreadsDone)
	// releases
	if e.custom != nil && e.custom.CloseCalls != 1 {
		e.problems = append(e.problems, fmt.Sprintf("custom transport closed %d times, want exactly once", e.custom.CloseCalls))
	}
	for _, c := range e.conns {
		if c == e.custom {
			continue
		}
		if c.Handed && !c.IsClosed() {
			e.problems = append(e.problems, "connection "+c.Name+" was handed to the node and is still open after Close")
		}
	}
	if e.listener != nil {
		if !e.listener.IsClosed() {
			e.problems = append(e.problems, "listener still open after Close")
		}
	}
	if e.pconn != nil && !e.pconn.IsClosed() {
		e.problems = append(e.problems, "packet conn still open after Close")
	}
	e.finished = true
	vmc.Finish()
}

// chOpened: the transport was used by a channel (some Read / Write / deadline call reached it).
func (e *exec) chOpened(c *vnet.FakeConn) bool { return len(c.IO) > 0 }

func (e *exec) Check(r *vmc.Result) string {
	if e.p.NoClose {
		return ""
	}
	if r.End == "panic" {
		return r.PanicMsg
	}
	if len(e.problems) > 0 {
		return strings.Join(e.problems, "; ")
	}
	if e.finished {
		return ""
	}
	var stuck []string
	for _, t := range r.Threads {
		if !t.Done {
			stuck = append(stuck, fmt.Sprintf("T%d(%s) at %s", t.ID, t.Name, t.Pending))
		}
	}
	what := "deadlock"
	if r.End == "horizon" {
		what = "no progress within the horizon (" + time.Duration(r.NowNS).String() + " virtual)"
	}
	if e.p.Kind == "initfail" || e.p.Kind == "baddialect" {
		return fmt.Sprintf("a node whose initialization failed leaves goroutines behind: %s", strings.Join(r.LibThreadsAlive(), ", "))
	}
	switch {
	case !e.closeCalled:
		return "MACHINERY: the closer was never triggered (" + what + ")"
	case !e.closeReturned:
		return fmt.Sprintf("Close does not return: %s; threads: %s", what, strings.Join(stuck, ", "))
	case !e.afterDone:
		return fmt.Sprintf("a Write call after Close blocks: %s; threads: %s", what, strings.Join(stuck, ", "))
	case !e.eventsClosed:
		return fmt.Sprintf("the event channel is not closed after Close (ranging over it does not end): %s; threads: %s", what, strings.Join(stuck, ", "))
	case e.writersDone != e.writers:
		return fmt.Sprintf("a Write call racing with Close blocks: %s; threads: %s", what, strings.Join(stuck, ", "))
	default:
		return fmt.Sprintf("goroutines left behind after Close returned: %s", strings.Join(r.LibThreadsAlive(), ", "))
	}
}

func (e *exec) Outcome(r *vmc.Result) string {
	return fmt.Sprint(r.End, e.closeReturned, e.log.Events, e.writersDone)
}

func variants(thorough bool) []sx.Variant {
	var ps []params
	kinds := []string{"custom", "serial", "tcpclient", "udpclient", "tcpclient-pending", "tcpclient-fail", "tcpserver", "udpserver", "broadcast"}
	for _, k := range kinds {
		for _, cons := range []string{"drain", "stop0", "stop1"} {
			for _, w := range []string{"none", "racing"} {
				for _, wb := range []bool{false, true} {
					for _, in := range []bool{false, true} {
						if wb && w == "none" {
							continue // nothing is ever written: same as !wb
						}
						if strings.HasPrefix(k, "tcpclient-") && (in || wb) {
							continue // never connected
						}
						if k == "broadcast" && wb {
							continue // packet conn writes do not block
						}
						ps = append(ps, params{Kind: k, Consumer: cons, Writer: w, WriteBlocks: wb, Incoming: in})
					}
				}
			}
		}
	}
	// heartbeat and stream requests on a subset
	for _, k := range []string{"custom", "serial", "tcpserver"} {
		ps = append(ps, params{Kind: k, Consumer: "drain", Writer: "none", HB: true, Incoming: true})
		ps = append(ps, params{Kind: k, Consumer: "stop1", Writer: "racing", HB: true, SR: true, Incoming: true})
		ps = append(ps, params{Kind: k, Consumer: "drain", Writer: "racing", HB: true, SR: true, Incoming: true, WriteBlocks: true})
	}
	for _, k := range []string{"custom", "tcpserver"} {
		ps = append(ps, params{Kind: k, Consumer: "drain", Writer: "none", SR: true, Late: true})
	}
	for _, k := range []string{"custom", "serial", "tcpserver"} {
		ps = append(ps, params{Kind: k, Consumer: "drain", Writer: "racing", SlowClose: true, Incoming: true})
	}
	ps = append(ps, params{Kind: "bc-badport", Consumer: "drain", Writer: "none"})
	ps = append(ps, params{Kind: "initfail", Consumer: "drain"}, params{Kind: "baddialect", Consumer: "drain"})

	var out []sx.Variant
	for _, p := range ps {
		p := p
		// length of the Close-free run (default schedule) = number of closing points
		if p.Kind != "initfail" && p.Kind != "baddialect" {
			dp := p
			dp.NoClose = true
			var de *exec
			r := vmc.RunOnce(nil, vmc.Options{MaxTime: 2500 * time.Millisecond, MaxSteps: 4000, NoCache: true}, func() {
				de = &exec{p: dp}
				de.Body()
			})
			if r.End == "panic" || r.End == "divergence" {
				panic("dry run of " + p.name() + " failed: " + r.PanicMsg)
			}
			p.L = r.Steps - de.baseSteps
			if p.L < 0 {
				p.L = 0
			}
		}
		// budget: the closing point is enumerated completely at no cost in every variant; the
		// deviation budget around it depends on the size of the variant
		big := p.HB || p.SR
		bound := 1
		if thorough {
			// k = 2 everywhere; k = 3 on the smallest variants of each endpoint family (k = 3 on all
			// ~140 variants does not finish in 2.5 hours: 179 M executions and still capped)
			bound = 2
			if !big && p.Consumer == "drain" && p.Writer == "none" && !p.Incoming && !p.Late && !p.SlowClose {
				bound = 3
			}
		}
		_ = big
		if p.SlowClose {
			bound = 1 // every Close adds a timer the adversarial clock may fire at any point: k = 2 costs 35 minutes
		}
		out = append(out, sx.Variant{
			Name:        p.name(),
			Class:       "close",
			Adversarial: true,
			MaxSteps:    6000,
			MaxTime:     10 * time.Minute,
			Bound:       bound,
			Shards:      4,
			New:         func() sx.Exec { return &exec{p: p} },
		})
	}
	return out
}

func main() { sx.Main("C12", variants) }
