#!/bin/bash
VMC_RACE=1 exec "$(dirname "$0")/../../bin/build-vmc" checks/c15 "$1"
