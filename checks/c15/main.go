//go:build vmc

// C15: concurrent use of a node is free of data races. Engine B in race mode: the rewriter
// additionally instruments every read / write of struct fields declared in the root
// package, pkg/frame and pkg/streamwriter, of package variables and every map operation;
// the runtime keeps exact Go happens-before vector clocks and reports two accesses to the
// same address, at least one a write, that are not ordered. Scenarios use the whole public
// API from several application threads together with heartbeats, stream requests,
// reconnects and close, explored within the deviation bound.
package main

import (
	"fmt"
	"io"
	"net"
	"strings"
	"time"

	"github.com/bluenviron/gomavlib/v3"
	"github.com/bluenviron/gomavlib/v3/pkg/dialects/common"
	"github.com/bluenviron/gomavlib/v3/pkg/frame"
	"github.com/bluenviron/gomavlib/v3/pkg/message"
	"github.com/bluenviron/gomavlib/v3/pkg/vmc"
	"github.com/bluenviron/gomavlib/v3/pkg/vmc/vnet"

	"verif/sx"
)

type params struct {
	Scen   string // full serial client
	Signed bool
	Close  int // closing point index (0 = after everything settled)
}

func (p params) name() string {
	s := p.Scen
	if p.Signed {
		s += "/signed"
	}
	return fmt.Sprintf("%s/close%d", s, p.Close)
}

type exec struct {
	p        params
	log      sx.Log
	problems []string
	finished bool
	chans    []*gomavlib.Channel
}

func apHB(seq, sys, comp byte) []byte {
	return sx.FrameOf(true, seq, sys, comp, &common.MessageHeartbeat{Type: 2, Autopilot: 3, SystemStatus: 4, MavlinkVersion: 3}, nil, 0, 0)
}

// truncPing is a PING whose v2 payload is zero-truncated (the decoder pads it again): every
// channel decodes the same message type through the node's shared codec.
func truncPing(seq, sys byte) []byte {
	return sx.FrameOf(true, seq, sys, 1, &common.MessagePing{TimeUsec: 5, Seq: uint32(seq) + 1}, nil, 0, 0)
}

func sleepUntil(d time.Duration) {
	vmc.AddWake(vmc.Epoch.Add(d), "scenario")
	vmc.Await("until "+d.String(), func() bool { return vmc.NowNS() >= int64(d) })
}

func (e *exec) Body() {
	vmc.RaceOn = true
	sx.ResetGlobals()
	p := e.p
	n := &gomavlib.Node{
		Dialect:             sx.Dialect(),
		OutVersion:          gomavlib.V2,
		OutSystemID:         10,
		HeartbeatPeriod:     time.Second,
		StreamRequestEnable: true,
		IdleTimeout:         500 * time.Second,
	}
	if p.Signed {
		n.OutKey = sx.V2Key(sx.Key)
	}
	var conns []*vnet.FakeConn
	var listener *vnet.FakeListener
	switch p.Scen {
	case "full":
		a := &vnet.FakeConn{Name: "A", In: [][]byte{apHB(0, 1, 1), truncPing(1, 1), apHB(2, 1, 1)}}
		b := &vnet.FakeConn{Name: "B", In: [][]byte{apHB(0, 2, 1), truncPing(1, 2)}}
		conns = []*vnet.FakeConn{a, b}
		listener = &vnet.FakeListener{Name: "lst"}
		vnet.ListenHook = func(network, address string) (net.Listener, error) { return listener, nil }
		n.Endpoints = []gomavlib.EndpointConf{
			gomavlib.EndpointCustom{ReadWriteCloser: a}, gomavlib.EndpointCustom{ReadWriteCloser: b},
			gomavlib.EndpointTCPServer{Address: "0.0.0.0:5600"},
		}
	case "serial":
		c1 := &vnet.FakeConn{Name: "ser1", In: [][]byte{apHB(0, 1, 1)}, InErr: io.EOF}
		c2 := &vnet.FakeConn{Name: "ser2", In: [][]byte{apHB(0, 1, 1)}}
		conns = []*vnet.FakeConn{c1, c2}
		ss := &sx.SerialScript{Conns: []*vnet.FakeConn{{Name: "probe"}, c1, c2}}
		ss.Install()
		n.Endpoints = []gomavlib.EndpointConf{gomavlib.EndpointSerial{Device: "/dev/ttyFAKE", Baud: 57600}}
	case "client":
		c1 := &vnet.FakeConn{Name: "cli1", In: [][]byte{apHB(0, 1, 1)}, InErr: io.EOF}
		c2 := &vnet.FakeConn{Name: "cli2", In: [][]byte{apHB(0, 1, 1)}}
		conns = []*vnet.FakeConn{c1, c2}
		ds := &sx.DialScript{Results: []*vnet.FakeConn{c1, nil, c2}}
		ds.Install()
		pc := &vnet.FakePacketConn{Name: "bc", In: [][]byte{apHB(0, 3, 1)}}
		vnet.ListenPacketHook = func(network, address string) (net.PacketConn, error) { return pc, nil }
		// a second client-type endpoint (serial) failing and retrying at the same time
		s1 := &vnet.FakeConn{Name: "ser1", In: [][]byte{apHB(0, 4, 1)}, InErr: io.EOF}
		ss := &sx.SerialScript{Conns: []*vnet.FakeConn{{Name: "probe"}, nil, s1, nil, {Name: "ser2"}}}
		ss.Install()
		conns = append(conns, s1)
		n.Endpoints = []gomavlib.EndpointConf{gomavlib.EndpointTCPClient{Address: "1.2.3.4:5600"},
			gomavlib.EndpointUDPBroadcast{BroadcastAddress: "192.168.7.255:5600", LocalAddress: "192.168.7.1:5600"},
			gomavlib.EndpointSerial{Device: "/dev/ttyFAKE", Baud: 57600},
			gomavlib.EndpointUDPClient{Address: "1.2.3.5:5600"}}
	}
	_ = conns
	if err := n.Initialize(); err != nil {
		e.problems = append(e.problems, "Initialize: "+err.Error())
		e.finished = true
		vmc.Finish()
	}
	// consumer: forwards every received frame to the other channels, fixing it first
	vmc.GoApp("consumer", func() {
		e.log.Consume(n, -1, func(ev gomavlib.Event) {
			switch x := ev.(type) {
			case *gomavlib.EventChannelOpen:
				e.chans = append(e.chans, x.Channel)
			case *gomavlib.EventFrame:
				n.FixFrame(x.Frame)                       //nolint
				n.WriteFrameExcept(x.Channel, x.Frame)    //nolint
				_ = x.Channel.String()
				_ = x.Channel.Endpoint()
			}
		})
	})
	writersDone := 0
	shared := &frame.V2Frame{SequenceNumber: 9, SystemID: 77, ComponentID: 1, Message: &common.MessagePing{Seq: 3}}
	vmc.GoApp("W1", func() {
		n.WriteMessageAll(&common.MessagePing{Seq: 1}) //nolint
		if len(e.chans) > 0 {
			n.WriteMessageTo(e.chans[0], &common.MessagePing{Seq: 2})     //nolint
			n.WriteMessageExcept(e.chans[0], &common.MessagePing{Seq: 3}) //nolint
		}
		n.WriteFrameAll(shared) //nolint
		if p.Signed {
			// a frame that arrives signed (under another key) and is forwarded to several channels
			sig := frame.V2Signature{1, 2, 3, 4, 5, 6}
			n.WriteFrameAll(&frame.V2Frame{IncompatibilityFlag: frame.V2FlagSigned, SequenceNumber: 3, SystemID: 79, ComponentID: 1,
				Message: &message.MessageRaw{ID: 4, Payload: []byte{1, 2}}, SignatureLinkID: 1, SignatureTimestamp: 99, Signature: &sig}) //nolint
		}
		writersDone++
	})
	vmc.GoApp("W2", func() {
		n.WriteFrameAll(&frame.V2Frame{SystemID: 78, ComponentID: 1, Message: &message.MessageRaw{ID: 4, Payload: []byte{1}}}) //nolint
		if len(e.chans) > 0 {
			n.WriteFrameTo(e.chans[len(e.chans)-1], &frame.V1Frame{SystemID: 78, ComponentID: 1, Message: &common.MessagePing{Seq: 5}})    //nolint
			n.WriteFrameExcept(e.chans[len(e.chans)-1], &frame.V2Frame{SystemID: 78, ComponentID: 1, Message: &common.MessagePing{Seq: 6}}) //nolint
		}
		n.WriteMessageAll(&common.MessageSysStatus{Load: 3}) //nolint
		writersDone++
	})
	if p.Scen == "full" {
		// a burst on both custom channels once both are open: the two readers decode the same
		// message types (heartbeat, zero-truncated ping) through the node's shared codecs with
		// nothing ordering them
		vmc.GoApp("burst", func() {
			vmc.AddWake(vmc.Epoch.Add(500*time.Millisecond), "burst")
			vmc.Await("two channels open", func() bool { return len(e.chans) >= 2 || vmc.NowNS() >= int64(500*time.Millisecond) })
			conns[0].Feed(append(apHB(3, 1, 1), truncPing(4, 1)...))
			conns[1].Feed(append(apHB(2, 2, 1), truncPing(3, 2)...))
		})
	}
	if listener != nil {
		vmc.GoApp("peers", func() {
			p1 := &vnet.FakeConn{Name: "peer1", In: [][]byte{apHB(0, 5, 1)}}
			listener.Connect(p1)
			sleepUntil(1500 * time.Millisecond)
			p2 := &vnet.FakeConn{Name: "peer2", In: [][]byte{apHB(0, 6, 1)}}
			listener.Connect(p2)
			p1.FailRead(io.EOF)
		})
	}
	// closing point: immediately racing with everything, after 1.2 s (heartbeat tick, reconnect
	// back-off pending), after 31 s (stream request cleaner ran)
	points := []time.Duration{31 * time.Second, 0, 1200 * time.Millisecond, 2500 * time.Millisecond}
	sleepUntil(points[p.Close])
	n.Close()
	vmc.Await("writers done", func() bool { return writersDone == 2 })
	// wire oracle on every transport: whole frames, originated frames with the node's identity
	// and gapless per-link sequence numbers (heartbeats, stream requests and application
	// messages share the link's counter), valid signatures with OutKey
	var key []byte
	if p.Signed {
		key = sx.Key
	}
	for _, c := range conns {
		frames, prob := sx.ParseConn(c)
		if prob != "" {
			e.problems = append(e.problems, c.Name+": "+prob)
			continue
		}
		if pr := sx.CheckOriginated(frames, 10, 1, true, key, 7); pr != "" {
			e.problems = append(e.problems, c.Name+": "+pr)
		}
	}
	e.finished = true
	vmc.Finish()
}

func (e *exec) Check(r *vmc.Result) string {
	if len(r.Races) > 0 {
		var s []string
		for _, rc := range r.Races {
			s = append(s, rc.String())
		}
		return strings.Join(s, "; ")
	}
	if r.End == "panic" {
		return r.PanicMsg
	}
	if len(e.problems) > 0 {
		return strings.Join(e.problems, "; ")
	}
	if e.finished {
		return ""
	}
	var stuck []string
	for _, t := range r.Threads {
		if !t.Done {
			stuck = append(stuck, fmt.Sprintf("T%d(%s) at %s", t.ID, t.Name, t.Pending))
		}
	}
	return "scenario did not finish (" + r.End + "); threads: " + strings.Join(stuck, ", ")
}

func (e *exec) Outcome(r *vmc.Result) string { return fmt.Sprint(r.End, len(r.Races), e.log.Events) }

func variants(thorough bool) []sx.Variant {
	var out []sx.Variant
	for _, scen := range []string{"full", "serial", "client"} {
		for _, signed := range []bool{false, true} {
			for cp := 0; cp < 4; cp++ {
				if signed && cp > 1 {
					continue
				}
				p := params{Scen: scen, Signed: signed, Close: cp}
				bound := 1
				if thorough {
					bound = 2
				}
				out = append(out, sx.Variant{
					Name: p.name(), Class: "race", Adversarial: cp != 0, MaxSteps: 60000, MaxTime: 10 * time.Minute, Bound: bound, Shards: 8,
					New: func() sx.Exec { return &exec{p: p} },
				})
			}
		}
	}
	return out
}

func main() { sx.Main("C15", variants) }
