// C08: routing transparency. Engine A: every accepted frame of every message type (canonical
// and non-canonical encodings) is pushed through 1..3 read->write hops with and without a
// dialect; edit + Node.FixFrame.
package main

import (
	"bytes"
	"encoding/json"
	"fmt"
	"io"
	"reflect"

	"github.com/bluenviron/gomavlib/v3"
	"github.com/bluenviron/gomavlib/v3/pkg/dialect"
	"github.com/bluenviron/gomavlib/v3/pkg/frame"
	"github.com/bluenviron/gomavlib/v3/pkg/message"

	"verif/bx"
	"verif/gm"
	"verif/ref"
)

var corpus []*gm.MsgType
var byName = map[string]*gm.MsgType{}
var tindex gm.TypeIndex
var key = bytes.Repeat([]byte{0x5A}, 32)

type hcase struct {
	Type    string `json:"type"`
	Dialect bool   `json:"dialect"`
	V2      bool   `json:"v2"`
	Signed  bool   `json:"signed"`
	Payload []byte `json:"payload"`
	Variant string `json:"variant"`
	Unknown bool   `json:"unknown_id"`
	Hops    int    `json:"hops"`
}

// capture collects everything one Writer.Write call hands to the transport (a frame may arrive
// in more than one Write call of the byte writer; a capture is used for one frame only).
type capture struct{ last []byte }

func (c *capture) Write(p []byte) (int, error) { c.last = append(c.last, p...); return len(p), nil }

func hop(in []byte, drw *dialect.ReadWriter) (message.Message, []byte, string) {
	r := &frame.Reader{ByteReader: bytes.NewReader(in), DialectRW: drw}
	if err := r.Initialize(); err != nil {
		return nil, nil, err.Error()
	}
	fr, err := r.Read()
	if err != nil {
		return nil, nil, "read: " + err.Error()
	}
	msg := fr.GetMessage() // Write replaces the decoded message by its encoding
	cp := &capture{}
	w := &frame.Writer{ByteWriter: cp, DialectRW: drw}
	if err := w.Initialize(); err != nil {
		return nil, nil, err.Error()
	}
	if err := w.Write(fr); err != nil {
		return msg, nil, "write: " + err.Error()
	}
	return msg, cp.last, ""
}

func buildInput(mt *gm.MsgType, c *hcase) []byte {
	f := ref.Frame{V2: c.V2, Seq: 0x77, Sys: 0x21, Comp: 0x42, ID: mt.ID, Payload: c.Payload}
	if c.Unknown {
		f.ID = 0xFFFFF0
		if !c.V2 {
			f.ID = 251 // not in any shipped dialect used here? checked by caller
		}
	}
	if c.V2 {
		f.Compat = 0x10
	}
	if c.Signed {
		f.Incompat = 1
		f.LinkID = 3
		f.Timestamp = 99999
	}
	f.Checksum = f.ComputeChecksum(mt.Def.CRCExtra())
	if c.Signed {
		f.Sig = f.Sign(key)
	}
	return f.Bytes()
}

func evalHops(c *hcase) string {
	mt := byName[c.Type]
	if mt == nil {
		return ""
	}
	in := buildInput(mt, c)
	orig, _ := gm.ParseExactly(in)
	var drw *dialect.ReadWriter
	if c.Dialect {
		drw = mt.DRW
	}
	cur := in
	var firstVals []ref.Val
	for h := 1; h <= c.Hops; h++ {
		fr, out, prob := hop(cur, drw)
		if prob != "" {
			return fmt.Sprintf("hop %d: %s (input % x)", h, prob, cur)
		}
		of, ok := gm.ParseExactly(out)
		if !ok {
			return fmt.Sprintf("hop %d: forwarded bytes are not one frame: % x", h, out)
		}
		if of.V2 != orig.V2 || of.Incompat != orig.Incompat || of.Compat != orig.Compat || of.Seq != orig.Seq || of.Sys != orig.Sys || of.Comp != orig.Comp || of.ID != orig.ID {
			return fmt.Sprintf("hop %d: header changed: in {%v} out {%v}", h, orig, of)
		}
		if !c.Dialect || c.Unknown {
			if !bytes.Equal(out, in) {
				return fmt.Sprintf("hop %d: forwarded bytes differ from the received bytes:\n in  % x\n out % x", h, in, out)
			}
		} else {
			if want := of.ComputeChecksum(mt.Def.CRCExtra()); want != of.Checksum {
				return fmt.Sprintf("hop %d: forwarded frame carries checksum %04x, the payload actually sent needs %04x (received % x, forwarded % x)", h, of.Checksum, want, cur, out)
			}
			vals := ref.ValsFromStruct(mt.Def, reflect.ValueOf(fr))
			if h == 1 {
				firstVals = vals
				if want, ok := mt.Def.Decode(orig.Payload, orig.V2); ok && !ref.EqualVals(vals, want) {
					return "first hop decoded a different value than the reference"
				}
			} else if !ref.EqualVals(vals, firstVals) {
				return fmt.Sprintf("hop %d decoded %v, first hop decoded %v", h, vals, firstVals)
			}
			// the next hop accepts it
			r := &frame.Reader{ByteReader: bytes.NewReader(out), DialectRW: drw}
			r.Initialize() //nolint
			nf, err := r.Read()
			if err != nil {
				return fmt.Sprintf("hop %d: the next reader refuses the forwarded frame: %v (received % x, forwarded % x)", h, err, cur, out)
			}
			if nv := ref.ValsFromStruct(mt.Def, reflect.ValueOf(nf.GetMessage())); !ref.EqualVals(nv, firstVals) {
				return fmt.Sprintf("hop %d: next hop decodes %v instead of %v", h, nv, firstVals)
			}
		}
		cur = out
	}
	return ""
}

// ---- FixFrame

type blockRWC struct{ ch chan struct{} }

func (b *blockRWC) Read(p []byte) (int, error)  { <-b.ch; return 0, io.EOF }
func (b *blockRWC) Write(p []byte) (int, error) { return len(p), nil }
func (b *blockRWC) Close() error                { close(b.ch); return nil }

type fcase struct {
	Type    string `json:"type"`
	V2      bool   `json:"v2"`
	Signed  bool   `json:"signed"`
	OutKey  bool   `json:"out_key"`
	Field   int    `json:"field"`
	Payload []byte `json:"payload"`
}

var nodes = map[string]*gomavlib.Node{}

func nodeFor(mt *gm.MsgType, outKey bool) *gomavlib.Node {
	k := fmt.Sprint(mt.Dialect, outKey)
	if n, ok := nodes[k]; ok {
		return n
	}
	var d *dialect.Dialect
	for _, nd := range gm.Dialects {
		if nd.Name == mt.Dialect {
			d = nd.D
		}
	}
	n := &gomavlib.Node{
		Endpoints:        []gomavlib.EndpointConf{gomavlib.EndpointCustom{ReadWriteCloser: &blockRWC{make(chan struct{})}}},
		Dialect:          d,
		OutVersion:       gomavlib.V2,
		OutSystemID:      10,
		HeartbeatDisable: true,
	}
	if outKey {
		n.OutKey = frame.NewV2Key(key)
	}
	if err := n.Initialize(); err != nil {
		bx.Fatalf("node: %v", err)
	}
	go func() {
		for range n.Events() {
		}
	}()
	nodes[k] = n
	return n
}

func evalFix(c *fcase, n *gomavlib.Node) string {
	mt := byName[c.Type]
	if mt == nil {
		return ""
	}
	in := buildInput(mt, &hcase{V2: c.V2, Signed: c.Signed, Payload: c.Payload})
	r := &frame.Reader{ByteReader: bytes.NewReader(in), DialectRW: mt.DRW}
	r.Initialize() //nolint
	fr, err := r.Read()
	if err != nil {
		return "read: " + err.Error()
	}
	// the application edits one field of the received message
	msg := fr.GetMessage()
	vals := ref.ValsFromStruct(mt.Def, reflect.ValueOf(msg))
	if c.Field >= 0 && c.Field < len(vals) {
		if vals[c.Field].IsS {
			vals[c.Field].Str = "E"
		} else {
			for j := range vals[c.Field].Bits {
				vals[c.Field].Bits[j] ^= 0x55
			}
		}
		ref.SetStruct(mt.Def, reflect.ValueOf(msg), vals)
	}
	want := mt.Def.Canon(ref.ValsFromStruct(mt.Def, reflect.ValueOf(msg)), c.V2)
	if err := n.FixFrame(fr); err != nil {
		return "FixFrame: " + err.Error()
	}
	cp := &capture{}
	w := &frame.Writer{ByteWriter: cp, DialectRW: mt.DRW}
	w.Initialize() //nolint
	if err := w.Write(fr); err != nil {
		return "write: " + err.Error()
	}
	of, ok := gm.ParseExactly(cp.last)
	if !ok {
		return "forwarded bytes are not one frame"
	}
	if wantck := of.ComputeChecksum(mt.Def.CRCExtra()); wantck != of.Checksum {
		return fmt.Sprintf("after FixFrame the frame carries checksum %04x, payload needs %04x", of.Checksum, wantck)
	}
	var ik *frame.V2Key
	if c.OutKey && c.Signed {
		ik = frame.NewV2Key(key)
		if of.Sign(key) != of.Sig {
			return "after FixFrame the signature does not verify under the outgoing key"
		}
	}
	r2 := &frame.Reader{ByteReader: bytes.NewReader(cp.last), DialectRW: mt.DRW, InKey: ik}
	r2.Initialize() //nolint
	nf, err := r2.Read()
	if err != nil {
		return fmt.Sprintf("next hop refuses the fixed frame: %v", err)
	}
	if nv := ref.ValsFromStruct(mt.Def, reflect.ValueOf(nf.GetMessage())); !ref.EqualVals(nv, want) {
		return fmt.Sprintf("next hop decodes %v, edited value %v", nv, want)
	}
	return ""
}

func variants(mt *gm.MsgType, v2 bool) []hcase {
	var out []hcase
	add := func(name string, p []byte) {
		if len(p) > 255 {
			return
		}
		out = append(out, hcase{Type: mt.Name(), V2: v2, Payload: p, Variant: name})
	}
	_, ext := mt.Def.Sizes()
	for bk := 0; bk < 3; bk++ {
		vals := gm.BaseVals(mt.Def, bk)
		canon := mt.Def.Encode(vals, v2)
		add(fmt.Sprint("canonical", bk), canon)
		if v2 {
			full := append([]byte{}, canon...)
			for len(full) < ext {
				full = append(full, 0)
			}
			if len(full) != len(canon) {
				add(fmt.Sprint("untruncated", bk), full)
				add(fmt.Sprint("half-truncated", bk), full[:(len(full)+len(canon)+1)/2])
			}
			for j := 1; j <= 3; j++ {
				add(fmt.Sprint("trailing", bk, j), append(append([]byte{}, full...), bytes.Repeat([]byte{0xC3}, j)...))
			}
			add(fmt.Sprint("max255-", bk), append(append([]byte{}, full...), bytes.Repeat([]byte{0x11}, 255-len(full))...))
			add(fmt.Sprint("zeros-appended", bk), append(append([]byte{}, full...), 0, 0))
		}
	}
	// bytes after a string terminator
	lay := mt.Def.Layout()
	pos := 0
	vals := gm.BaseVals(mt.Def, 2)
	for _, f := range lay {
		if f.Ext && !v2 {
			continue
		}
		sz := f.FieldSize()
		if f.Type == "char" && sz >= 3 {
			full := mt.Def.Encode(vals, v2)
			_, e := mt.Def.Sizes()
			if !v2 {
				e, _ = mt.Def.Sizes()
			}
			p := make([]byte, e)
			copy(p, full)
			p[pos], p[pos+1], p[pos+2] = 'a', 0, 'z'
			add(fmt.Sprint("after-terminator-", f.Name), p)
		}
		pos += sz
	}
	return out
}

func main() {
	r := bx.Start("C08", "exploration")
	var err error
	corpus, err = gm.Corpus()
	if err != nil {
		bx.Fatalf("%v", err)
	}
	tindex = gm.NewTypeIndex(corpus)
	for _, m := range corpus {
		byName[m.Name()] = m
	}
	r.Replayer = func(class string, raw json.RawMessage) (bool, string) {
		var d string
		if class == "fixframe" {
			var c fcase
			json.Unmarshal(raw, &c)
			mt := byName[c.Type]
			if mt == nil {
				return false, ""
			}
			if p := bx.Catch(func() { d = evalFix(&c, nodeFor(mt, c.OutKey)) }); p != "" {
				d = p
			}
		} else {
			var c hcase
			json.Unmarshal(raw, &c)
			if p := bx.Catch(func() { d = evalHops(&c) }); p != "" {
				d = p
			}
		}
		return d != "", d
	}
	if r.ReplayMode() {
		return
	}
	var evals bx.Counter
	var distinct bx.Distinct
	// nodes are created up front (not concurrently)
	for _, mt := range corpus {
		nodeFor(mt, false)
		nodeFor(mt, true)
	}
	bx.ParDo(len(corpus), func(i int) {
		mt := corpus[i]
		if r.Expired() {
			return
		}
		for _, v2 := range []bool{false, true} {
			if !v2 && mt.ID > 255 {
				continue
			}
			for _, v := range variants(mt, v2) {
				for _, dial := range []bool{false, true} {
					for _, signed := range []bool{false, true} {
						if signed && !v2 {
							continue
						}
						c := v
						c.Dialect, c.Signed, c.Hops = dial, signed, 3
						evals.Add(1)
						var d string
						if p := bx.Catch(func() { d = evalHops(&c) }); p != "" {
							d = p
						}
						if d != "" {
							class := "hops_nodialect"
							if dial {
								class = "hops_dialect"
							}
							r.Fail(class, fmt.Sprintf("%s v2=%v signed=%v %s", c.Type, c.V2, c.Signed, c.Variant), c, d)
						}
						distinct.AddBytes([]byte(c.Type), c.Payload, []byte(fmt.Sprint(v2)))
					}
				}
				// unknown id through a dialect hop: raw, bytes identical
				c := v
				c.Dialect, c.Unknown, c.Hops = true, true, 2
				if mt.DRW.GetMessage(0xFFFFF0) == nil && (v2 || mt.DRW.GetMessage(251) == nil) {
					evals.Add(1)
					if d := evalHops(&c); d != "" {
						r.Fail("hops_unknown", fmt.Sprintf("%s v2=%v %s", c.Type, c.V2, c.Variant), c, d)
					}
				}
				// FixFrame after editing each field (first 6 fields; all in thorough)
				nf := len(mt.Def.Fields)
				if !r.Thorough() && nf > 4 {
					nf = 4
				}
				for _, outKey := range []bool{false, true} {
					for _, signed := range []bool{false, true} {
						if signed && !v2 {
							continue
						}
						for fi := -1; fi < nf; fi++ {
							fc := fcase{Type: mt.Name(), V2: v2, Signed: signed, OutKey: outKey, Field: fi, Payload: v.Payload}
							evals.Add(1)
							var d string
							if p := bx.Catch(func() { d = evalFix(&fc, nodeFor(mt, outKey)) }); p != "" {
								d = p
							}
							if d != "" {
								r.Fail("fixframe", fmt.Sprintf("%s v2=%v signed=%v outkey=%v field=%d %s", fc.Type, fc.V2, fc.Signed, fc.OutKey, fc.Field, v.Variant), fc, d)
							}
						}
					}
				}
			}
		}
		if i%150 == 0 {
			vs := variants(mt, true)
			r.Sample(vs[len(vs)-1])
		}
	})
	for _, n := range nodes {
		n.Close()
	}
	r.Assumption = []string{
		"FixFrame: a frame received unsigned stays unsigned (only its checksum is asserted); frames received signed must verify under the node's OutKey after FixFrame",
		"with a dialect, signatures are not required to survive re-encoding of non-canonical payloads (the statement promises checksum validity and equal decoding)",
		"payload values: 3 whole-message assignments per type, plus per string field one encoding with bytes after the terminator",
	}
	r.Finish(map[string]any{
		"evaluations":         evals.N(),
		"distinct_nontrivial": distinct.N(),
		"rule":                "per message type x version: canonical, untruncated, half-truncated, zero-extended, unknown-trailing-bytes (1..3 and up to 255) and after-string-terminator encodings, unsigned and signed, through 3 hops without dialect (bytes identical) and with dialect (valid checksum for the bytes sent, accepted by and equal at the next hop), unknown ids through a dialect hop, and edit-one-field + Node.FixFrame; distinct = distinct (type, version, payload) inputs",
		"types":               len(corpus),
	})
}
