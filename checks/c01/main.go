// C01: frame wire format. Engine A: every axis of the frame field space is swept completely
// (each header byte 0..255, all 2^24 / 2^8 message ids, all payload lengths, all checksums,
// link ids, timestamp and signature byte lanes) at several base frames through ONE
// writer -> pipe -> reader pair that is kept alive, against ref.Frame.Bytes.
package main

import (
	"bufio"
	"bytes"
	"encoding/json"
	"fmt"
	"reflect"
	"sync"

	"github.com/bluenviron/gomavlib/v3/pkg/dialect"
	"github.com/bluenviron/gomavlib/v3/pkg/frame"
	"github.com/bluenviron/gomavlib/v3/pkg/message"

	"verif/bx"
	"verif/gm"
	"verif/ref"
)

type sink struct {
	buf   bytes.Buffer
	calls int
	last  []byte
}

func (s *sink) Write(p []byte) (int, error) {
	s.calls++
	s.last = append(s.last, p...) // everything written since the last reset (a frame may take several calls)
	s.buf.Write(p)
	return len(p), nil
}
func (s *sink) Read(p []byte) (int, error) { return s.buf.Read(p) }

// pair is a writer and a reader over the same pipe, kept alive over a whole sequence.
type pair struct {
	s  *sink
	w  *frame.Writer
	r  *frame.Reader
	br *bufio.Reader // the reader's buffer (owned by the harness: BufByteReader configuration)
}

func newPair(drw *dialect.ReadWriter) *pair {
	s := &sink{}
	w := &frame.Writer{ByteWriter: s, DialectRW: drw}
	if err := w.Initialize(); err != nil {
		panic(err)
	}
	br := bufio.NewReaderSize(s, 512)
	r := &frame.Reader{BufByteReader: br, DialectRW: drw}
	if err := r.Initialize(); err != nil {
		panic(err)
	}
	return &pair{s, w, r, br}
}

// chunked hands the pipe's bytes out in small, varying pieces (stream mode)
type chunked struct {
	s *sink
	k int
}

var chunkSizes = []int{1, 2, 3, 5, 8, 13, 64, 300, 512}

func (c *chunked) Read(p []byte) (int, error) {
	n := chunkSizes[c.k%len(chunkSizes)]
	c.k++
	if n > len(p) {
		n = len(p)
	}
	return c.s.buf.Read(p[:n])
}

// streamPair: frames are written back to back and read in batches through a chunking
// transport, so that frames straddle the reader's buffer window and transport reads.
type streamPair struct {
	p       *pair
	pending []ref.Frame
}

func newStreamPair(drw *dialect.ReadWriter) *streamPair {
	s := &sink{}
	w := &frame.Writer{ByteWriter: s, DialectRW: drw}
	if err := w.Initialize(); err != nil {
		panic(err)
	}
	r := &frame.Reader{ByteReader: &chunked{s: s}, DialectRW: drw}
	if err := r.Initialize(); err != nil {
		panic(err)
	}
	return &streamPair{p: &pair{s, w, r, nil}}
}

// add writes one frame; every 23 frames (or when flush is set) the batch is read back.
func (sp *streamPair) add(f *ref.Frame, flush bool) string {
	if f != nil {
		if err := sp.p.w.Write(gm.FromRef(f)); err != nil {
			return "stream mode: write error: " + err.Error()
		}
		sp.pending = append(sp.pending, *f)
	}
	if len(sp.pending) < 23 && !flush {
		return ""
	}
	defer func() { sp.pending = sp.pending[:0] }()
	for i := range sp.pending {
		want := sp.pending[i]
		fr, err := sp.p.r.Read()
		if err != nil {
			return fmt.Sprintf("stream mode: frame %d of a batch of %d written back to back and read in small pieces: %v", i, len(sp.pending), err)
		}
		got, raw := gm.ToRef(fr)
		if !raw {
			return "stream mode: decoded message where a raw one was expected"
		}
		cmp := want
		if !want.Signed() {
			cmp.LinkID, cmp.Timestamp, cmp.Sig = 0, 0, [6]byte{}
		}
		if !want.V2 {
			cmp.Incompat, cmp.Compat = 0, 0
		}
		if _, isV2 := fr.(*frame.V2Frame); isV2 != want.V2 || !eqFrame(got, &cmp) {
			return fmt.Sprintf("stream mode: frame %d of a batch written back to back and read in small pieces comes back as {%v}, written {%v}", i, got, &cmp)
		}
	}
	return ""
}

type fcase struct {
	Mode   string      `json:"mode"` // nodialect | unknownid
	Frames []ref.Frame `json:"frames"`
}

func eqFrame(a, b *ref.Frame) bool {
	return a.V2 == b.V2 && a.Incompat == b.Incompat && a.Compat == b.Compat && a.Seq == b.Seq && a.Sys == b.Sys &&
		a.Comp == b.Comp && a.ID == b.ID && bytes.Equal(a.Payload, b.Payload) && a.Checksum == b.Checksum &&
		a.LinkID == b.LinkID && a.Timestamp == b.Timestamp && a.Sig == b.Sig
}

// roundTrip writes one frame and reads it back; returns a problem description.
func (p *pair) roundTrip(f *ref.Frame) string {
	want := f.Bytes()
	p.s.last = p.s.last[:0]
	if perr := bx.Catch(func() {
		if err := p.w.Write(gm.FromRef(f)); err != nil {
			panic("write error: " + err.Error())
		}
	}); perr != "" {
		return perr
	}
	if !bytes.Equal(p.s.last, want) {
		return fmt.Sprintf("emitted % x, spec layout % x", p.s.last, want)
	}
	var fr frame.Frame
	var err error
	if perr := bx.Catch(func() { fr, err = p.r.Read() }); perr != "" {
		return perr
	}
	if err != nil {
		return "read back: " + err.Error()
	}
	got, raw := gm.ToRef(fr)
	if !raw {
		return "read back a decoded message where a raw one was expected"
	}
	_, isV2 := fr.(*frame.V2Frame)
	if isV2 != f.V2 {
		return "read back the other frame version"
	}
	if v2, ok := fr.(*frame.V2Frame); ok {
		if (v2.Signature != nil) != f.Signed() {
			return "signature presence differs"
		}
		if !f.Signed() && (v2.SignatureLinkID != 0 || v2.SignatureTimestamp != 0) {
			return "unsigned frame read back with signature fields"
		}
	}
	cmp := *f
	if !f.Signed() {
		cmp.LinkID, cmp.Timestamp, cmp.Sig = 0, 0, [6]byte{}
	}
	if !f.V2 {
		cmp.Incompat, cmp.Compat = 0, 0
	}
	if !eqFrame(got, &cmp) {
		return fmt.Sprintf("read back {%v}, wrote {%v}", got, &cmp)
	}
	if p.s.buf.Len() != 0 || p.br.Buffered() != 0 {
		return "reader left bytes unconsumed"
	}
	return ""
}

func fill(n int, kind int) []byte {
	if n == 0 {
		return nil
	}
	b := make([]byte, n)
	for i := range b {
		switch kind {
		case 0:
			b[i] = 0
		case 1:
			b[i] = 0xFF
		case 2:
			b[i] = byte(i + 1)
		case 3:
			if i%2 == 0 {
				b[i] = 0xFD
			} else {
				b[i] = 0xFE
			}
		}
	}
	return b
}

func bases() []ref.Frame {
	return []ref.Frame{
		{Seq: 1, Sys: 2, Comp: 3, ID: 4, Payload: []byte{5, 6, 7}, Checksum: 0x0809},
		{V2: true, Seq: 0xA1, Sys: 0xA2, Comp: 0xA3, ID: 0xA4A5A6, Payload: fill(9, 2), Checksum: 0xA7A8, Compat: 0xA9},
		{V2: true, Incompat: 1, Seq: 0xFD, Sys: 0xFE, Comp: 0xFD, ID: 0x00FEFD, Payload: fill(255, 3), Checksum: 0xFEFD, LinkID: 0xFD,
			Timestamp: 0xFEFDFEFDFEFD, Sig: [6]byte{0xFD, 0xFE, 0xFD, 0xFE, 0xFD, 0xFE}},
		{V2: true, Incompat: 1, ID: 0, Payload: nil, LinkID: 0, Timestamp: 0},
		{Seq: 0, Sys: 0, Comp: 0, ID: 0, Payload: nil, Checksum: 0},
	}
}

var unknownDialect = func() *dialect.ReadWriter {
	d, err := gm.DialectRW(gm.Dialects[11].D) // minimal: ids 0 and 300 only
	if err != nil {
		panic(err)
	}
	return d
}()

func knownID(id uint32) bool { return unknownDialect.GetMessage(id) != nil }

func main() {
	r := bx.Start("C01", "exploration")
	r.Replayer = func(class string, raw json.RawMessage) (bool, string) {
		if class == "dialect_roundtrip" {
			var c dcase
			json.Unmarshal(raw, &c)
			for _, mt := range getCorpus() {
				if mt.Name() == c.Type {
					d := evalDialect(newPair(mt.DRW), mt, c.Variant)
					return d != "", d
				}
			}
			return false, ""
		}
		if class == "stream_roundtrip" {
			return true, "stream mode failures depend on the whole batch: re-run the check"
		}
		var c fcase
		json.Unmarshal(raw, &c)
		var drw *dialect.ReadWriter
		if c.Mode == "unknownid" {
			drw = unknownDialect
		}
		p := newPair(drw)
		for i := range c.Frames {
			var d string
			if class == "v1_refusal" && i == len(c.Frames)-1 {
				d = refusal(p, &c.Frames[i])
			} else {
				d = p.roundTrip(&c.Frames[i])
			}
			if d != "" {
				return true, d
			}
		}
		return false, ""
	}
	if r.ReplayMode() {
		return
	}

	var evals bx.Counter
	var distinct bx.Distinct
	var idSeen [1 << 24 / 64]uint64
	var idMu sync.Mutex

	// Every sweep is a list of frames generated from (base index, axis, value). Work is cut
	// into jobs; each job owns one pair and runs its frames as ONE sequence.
	type job struct {
		mode   string
		frames func(yield func(*ref.Frame))
	}
	var jobs []job
	add := func(mode string, g func(yield func(*ref.Frame))) { jobs = append(jobs, job{mode, g}) }

	bs := bases()
	for _, mode := range []string{"nodialect", "unknownid"} {
		for bi := range bs {
			b := bs[bi]
			mode := mode
			if mode == "unknownid" && knownID(b.ID) {
				b.ID = 7
			}
			// header bytes
			add(mode, func(y func(*ref.Frame)) {
				for v := 0; v < 256; v++ {
					for axis := 0; axis < 6; axis++ {
						f := b
						switch axis {
						case 0:
							f.Seq = byte(v)
						case 1:
							f.Sys = byte(v)
						case 2:
							f.Comp = byte(v)
						case 3:
							if !f.V2 {
								continue
							}
							f.Compat = byte(v)
						case 4:
							if !f.Signed() {
								continue
							}
							f.LinkID = byte(v)
						case 5:
							if !f.Signed() {
								continue
							}
							for k := 0; k < 6; k++ {
								g := f
								g.Sig[k] = byte(v)
								y(&g)
							}
							continue
						}
						y(&f)
					}
				}
			})
			// payload lengths x fills
			add(mode, func(y func(*ref.Frame)) {
				for n := 0; n < 256; n++ {
					for k := 0; k < 4; k++ {
						f := b
						f.Payload = fill(n, k)
						y(&f)
					}
				}
			})
			// all checksums
			add(mode, func(y func(*ref.Frame)) {
				for c := 0; c < 65536; c++ {
					f := b
					f.Checksum = uint16(c)
					y(&f)
				}
			})
			// timestamps: <=2 bits set, byte lanes, ends
			if b.Signed() {
				add(mode, func(y func(*ref.Frame)) {
					ts := []uint64{0, (1 << 48) - 1}
					for i := 0; i < 48; i++ {
						ts = append(ts, 1<<uint(i), ((1<<48)-1)^(1<<uint(i)))
						for j := i + 1; j < 48; j++ {
							ts = append(ts, 1<<uint(i)|1<<uint(j))
						}
					}
					for lane := 0; lane < 6; lane++ {
						for v := 0; v < 256; v++ {
							ts = append(ts, uint64(v)<<(8*uint(lane)))
						}
					}
					for _, t := range ts {
						f := b
						f.Timestamp = t
						y(&f)
					}
				})
			}
			// message ids
			if !b.V2 {
				add(mode, func(y func(*ref.Frame)) {
					for id := 0; id < 256; id++ {
						if mode == "unknownid" && knownID(uint32(id)) {
							continue
						}
						f := b
						f.ID = uint32(id)
						y(&f)
					}
				})
			} else {
				const chunk = 1 << 18
				for lo := 0; lo < 1<<24; lo += chunk {
					lo := lo
					if !r.Thorough() && !(mode == "nodialect" && bi == 1) {
						// quick: full 2^24 sweep at one base frame, structured subset at the others
						if lo != 0 {
							continue
						}
						add(mode, func(y func(*ref.Frame)) {
							ids := []uint32{0, 1, 255, 256, 65535, 65536, 1<<24 - 1}
							for i := 0; i < 24; i++ {
								ids = append(ids, 1<<uint(i), (1<<24-1)^(1<<uint(i)))
								for j := i + 1; j < 24; j++ {
									ids = append(ids, 1<<uint(i)|1<<uint(j))
								}
							}
							for id := uint32(0); id < 70000; id += 7 {
								ids = append(ids, id)
							}
							for _, id := range ids {
								if mode == "unknownid" && knownID(id) {
									continue
								}
								f := b
								f.ID = id
								y(&f)
							}
						})
						continue
					}
					add(mode, func(y func(*ref.Frame)) {
						for id := lo; id < lo+chunk; id++ {
							if mode == "unknownid" && knownID(uint32(id)) {
								continue
							}
							f := b
							f.ID = uint32(id)
							y(&f)
						}
					})
				}
			}
		}
		// all ordered pairs of payload lengths through the same writer (stale scratch bytes)
		for _, bi := range []int{0, 1, 2} {
			b := bs[bi]
			mode := mode
			if mode == "unknownid" && knownID(b.ID) {
				b.ID = 7
			}
			for a := 0; a < 256; a += 16 {
				a := a
				add(mode, func(y func(*ref.Frame)) {
					for n1 := a; n1 < a+16; n1++ {
						for n2 := 0; n2 < 256; n2++ {
							f := b
							f.Payload = fill(n1, 2)
							y(&f)
							g := b
							g.Payload = fill(n2, 1)
							y(&g)
						}
					}
				})
			}
		}
		// version / signedness alternation: all ordered pairs of base frames
		mode := mode
		add(mode, func(y func(*ref.Frame)) {
			for i := range bs {
				for j := range bs {
					for k := range bs {
						f, g, h := bs[i], bs[j], bs[k]
						if mode == "unknownid" {
							for _, x := range []*ref.Frame{&f, &g, &h} {
								if knownID(x.ID) {
									x.ID = 7
								}
							}
						}
						y(&f)
						y(&g)
						y(&h)
					}
				}
			}
		})
	}

	bx.ParDo(len(jobs), func(ji int) {
		j := jobs[ji]
		var drw *dialect.ReadWriter
		if j.mode == "unknownid" {
			drw = unknownDialect
		}
		p := newPair(drw)
		sp := newStreamPair(drw)
		var prev *ref.Frame
		n := 0
		j.frames(func(f *ref.Frame) {
			if n%8192 == 0 && r.Expired() {
				return
			}
			n++
			if d := p.roundTrip(f); d != "" {
				c := fcase{Mode: j.mode}
				if prev != nil {
					c.Frames = append(c.Frames, *prev)
				}
				c.Frames = append(c.Frames, *f)
				r.Fail("layout_roundtrip", fmt.Sprintf("%s %v", j.mode, f), c, d)
				p = newPair(drw) // resynchronise
			}
			if n <= 40000 {
				if d := sp.add(f, false); d != "" {
					r.Fail("stream_roundtrip", fmt.Sprintf("%s %v", j.mode, f), fcase{Mode: j.mode, Frames: []ref.Frame{*f}}, d)
					sp = newStreamPair(drw)
				}
			}
			fc := *f
			prev = &fc
			if f.V2 {
				idMu.Lock()
				idSeen[f.ID/64] |= 1 << (f.ID % 64)
				idMu.Unlock()
			}
			if n < 20000 {
				distinct.AddBytes(f.Bytes())
			}
		})
		if d := sp.add(nil, true); d != "" {
			r.Fail("stream_roundtrip", j.mode+" (last batch)", fcase{Mode: j.mode}, d)
		}
		evals.Add(n)
		if ji%17 == 0 && prev != nil {
			r.Sample(map[string]any{"mode": j.mode, "last_frame_of_job": prev.String(), "frames_in_job": n})
		}
	})

	// refusal: v1 frame whose id exceeds 255
	nref := 0
	for _, mode := range []string{"nodialect", "unknownid"} {
		var drw *dialect.ReadWriter
		if mode == "unknownid" {
			drw = unknownDialect
		}
		p := newPair(drw)
		ids := []uint32{256, 257, 511, 512, 65535, 65536, 1<<24 - 1, 0x100FE, 0xFE00, 0x1FE}
		for i := 8; i < 24; i++ {
			ids = append(ids, 1<<uint(i), 1<<uint(i)|0x42)
		}
		for id := uint32(256); id < 5000; id += 13 {
			ids = append(ids, id)
		}
		for _, id := range ids {
			if mode == "unknownid" && knownID(id) {
				continue
			}
			f := ref.Frame{Seq: 1, Sys: 2, Comp: 3, ID: id, Payload: []byte{9, 9}, Checksum: 0x1111}
			nref++
			if d := refusal(p, &f); d != "" {
				r.Fail("v1_refusal", fmt.Sprint(mode, " id=", id), fcase{Mode: mode, Frames: []ref.Frame{f}}, d)
				p = newPair(drw)
			}
			// the next frame is unaffected
			g := bs[nref%len(bs)]
			if mode == "unknownid" && knownID(g.ID) {
				g.ID = 7
			}
			if d := p.roundTrip(&g); d != "" {
				r.Fail("v1_refusal", fmt.Sprint(mode, " after id=", id), fcase{Mode: mode, Frames: []ref.Frame{f, g}}, "frame after a refused one: "+d)
				p = newPair(drw)
			}
		}
	}
	evals.Add(nref)

	// with a dialect that knows the id: decoded messages are encoded by the writer and come
	// back decoded; the bytes are the spec layout of the reference encoding.
	nd := withDialect(r)
	evals.Add(nd)

	ids := 0
	for _, w := range idSeen {
		for ; w != 0; w &= w - 1 {
			ids++
		}
	}
	r.Assumption = []string{
		"payload contents: 4 fill patterns per length (zero, FF, counting, marker bytes), not all 2^(8n) contents",
		"each axis is swept completely at 5 base frames (one-axis-at-a-time plus all ordered pairs of payload lengths and of base frames), not the full cross product",
	}
	r.Finish(map[string]any{
		"evaluations":             evals.N(),
		"distinct_nontrivial":     distinct.N(),
		"rule":                    "frame written by frame.Writer and read back by frame.Reader through one live pair; distinct = distinct wire byte strings among the first 20000 frames of each job (lower bound); non-trivial = every frame (each differs from the base frame in the swept field)",
		"distinct_v2_message_ids": ids,
		"jobs":                    len(jobs),
		"v1_refusals":             nref,
		"with_dialect_frames":     nd,
	})
}

// refusal: the writer must return an error and hand nothing to the ByteWriter.
func refusal(p *pair, f *ref.Frame) string {
	c0, l0 := p.s.calls, p.s.buf.Len()
	var err error
	if perr := bx.Catch(func() { err = p.w.Write(gm.FromRef(f)) }); perr != "" {
		return perr
	}
	if err == nil {
		return fmt.Sprintf("v1 frame with id %d accepted; emitted % x", f.ID, p.s.last)
	}
	if p.s.calls != c0 || p.s.buf.Len() != l0 {
		return "refused frame left bytes in the ByteWriter"
	}
	return ""
}

type dcase struct {
	Type    string `json:"type"`
	Variant int    `json:"variant"`
}

var corpusOnce sync.Once
var corpus []*gm.MsgType

func getCorpus() []*gm.MsgType {
	corpusOnce.Do(func() {
		var err error
		corpus, err = gm.Corpus()
		if err != nil {
			bx.Fatalf("corpus: %v", err)
		}
	})
	return corpus
}

func evalDialect(p *pair, mt *gm.MsgType, variant int) string {
	v2 := variant >= 2
	vals := mt.Def.ZeroVals()
	// counting pattern in every element
	k := uint64(variant + 1)
	for fi := range vals {
		if vals[fi].IsS {
			vals[fi].Str = "ab"
			continue
		}
		for j := range vals[fi].Bits {
			vals[fi].Bits[j] = k * 0x0101010101010101
			k++
		}
	}
	msg := mt.New()
	ref.SetStruct(mt.Def, reflect.ValueOf(msg), vals)
	canon := mt.Def.Canon(ref.ValsFromStruct(mt.Def, reflect.ValueOf(msg)), v2)
	f := ref.Frame{V2: v2, Seq: byte(variant * 40), Sys: 200, Comp: 100, ID: mt.ID}
	f.Payload = mt.Def.Encode(canon, v2)
	if len(f.Payload) == 0 {
		f.Payload = nil
	}
	if variant >= 4 {
		f.Incompat = 1
		f.LinkID = 5
		f.Timestamp = 123456789
	}
	f.Checksum = f.ComputeChecksum(mt.Def.CRCExtra())
	if variant >= 4 {
		f.Sig = f.Sign(make([]byte, 32))
	}
	gf := gm.FromRef(&f)
	switch x := gf.(type) {
	case *frame.V1Frame:
		x.Message = msg
	case *frame.V2Frame:
		x.Message = msg
	}
	p.s.last = p.s.last[:0]
	if err := p.w.Write(gf); err != nil {
		return "write: " + err.Error()
	}
	if want := f.Bytes(); !bytes.Equal(p.s.last, want) {
		return fmt.Sprintf("emitted % x, spec layout of the reference encoding % x", p.s.last, want)
	}
	fr, err := p.r.Read()
	if err != nil {
		return "read back: " + err.Error()
	}
	got := fr.GetMessage()
	if _, isRaw := got.(*message.MessageRaw); isRaw {
		return "message of the dialect came back undecoded"
	}
	if gv := ref.ValsFromStruct(mt.Def, reflect.ValueOf(got)); !ref.EqualVals(gv, canon) {
		return fmt.Sprintf("decoded %v, wrote %v", gv, canon)
	}
	if fr.GetSequenceNumber() != f.Seq || fr.GetSystemID() != f.Sys || fr.GetComponentID() != f.Comp || fr.GetChecksum() != f.Checksum {
		return "header fields differ after read back"
	}
	return ""
}

func withDialect(r *bx.Run) int {
	corpus := getCorpus()
	var n bx.Counter
	step := 1
	if !r.Thorough() {
		step = 5
	}
	var sel []*gm.MsgType
	for i := 0; i < len(corpus); i += step {
		sel = append(sel, corpus[i])
	}
	bx.ParDo(len(sel), func(i int) {
		mt := sel[i]
		p := newPair(mt.DRW)
		for variant := 0; variant < 6; variant++ {
			if variant < 2 && mt.ID > 255 {
				continue
			}
			n.Add(1)
			var d string
			if perr := bx.Catch(func() { d = evalDialect(p, mt, variant) }); perr != "" {
				d = perr
			}
			if d != "" {
				r.Fail("dialect_roundtrip", fmt.Sprint(mt.Name(), " variant ", variant), dcase{mt.Name(), variant}, d)
				p = newPair(mt.DRW)
			}
		}
	})
	return n.N()
}
