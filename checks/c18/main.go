// C18: dialect generator - generated Go means what the XML says. Translation validation,
// exhaustive over a bounded XML grammar: every document of the grammar is generated,
// conversion.Convert (from /repo's tree) runs on it twice, the generated packages are
// compiled together with a driver (gen/c18drv) that compares every message (id, field
// order, sizes, CRC_EXTRA, encodings) and every enum constant with the reference computed
// from the XML descriptor, never from generated code.
package main

import (
	"bytes"
	"encoding/json"
	"fmt"
	"os"
	"os/exec"
	"path/filepath"
	"sort"
	"strings"

	"github.com/bluenviron/gomavlib/v3/pkg/conversion"

	"verif/bx"
	. "verif/gen/c18desc"
)

type spec struct {
	Type     string
	ArrayLen int
	Enum     string
}

func (s spec) size() int {
	t := s.Type
	n := 1
	switch t {
	case "double", "uint64_t", "int64_t":
		n = 8
	case "float", "uint32_t", "int32_t":
		n = 4
	case "uint16_t", "int16_t":
		n = 2
	}
	if s.ArrayLen > 0 {
		n *= s.ArrayLen
	}
	return n
}

var enumOfWidth = map[string]string{"uint8_t": "E_U8", "int8_t": "E_I8", "uint16_t": "E_U16", "uint32_t": "E_U32", "int32_t": "E_I32", "uint64_t": "E_U64"}

func fullSpecs() []spec {
	var out []spec
	maxLen := map[int]int{8: 15, 4: 30, 2: 60, 1: 120}
	for _, t := range []string{"double", "uint64_t", "int64_t", "float", "uint32_t", "int32_t", "uint16_t", "int16_t", "uint8_t", "int8_t"} {
		s := spec{Type: t}
		out = append(out, s, spec{Type: t, ArrayLen: 2}, spec{Type: t, ArrayLen: maxLen[s.size()]})
	}
	out = append(out, spec{Type: "char"}, spec{Type: "char", ArrayLen: 1}, spec{Type: "char", ArrayLen: 5}, spec{Type: "char", ArrayLen: 16})
	for _, w := range []string{"uint8_t", "int8_t", "uint16_t", "uint32_t", "int32_t", "uint64_t"} {
		out = append(out, spec{Type: w, Enum: enumOfWidth[w]})
	}
	out = append(out, spec{Type: "uint8_t", ArrayLen: 3, Enum: "E_U8"}, spec{Type: "uint32_t", ArrayLen: 2, Enum: "E_U32"})
	out = append(out, spec{Type: "uint8_t_mavlink_version"})
	return out
}

func reducedSpecs() []spec {
	return []spec{{Type: "uint64_t"}, {Type: "float"}, {Type: "int16_t"}, {Type: "uint8_t"}, {Type: "uint16_t", ArrayLen: 2},
		{Type: "char", ArrayLen: 5}, {Type: "uint32_t", Enum: "E_U32"}, {Type: "double", ArrayLen: 3}}
}

func fieldEnums() []Enum {
	var out []Enum
	for _, n := range []string{"E_U8", "E_I8", "E_U16", "E_U32", "E_I32", "E_U64"} {
		out = append(out, Enum{Name: n, Entries: []EnumEntry{{n + "_ZERO", "0", 0}, {n + "_ONE", "1", 1}, {n + "_SEVEN", "7", 7}}})
	}
	return out
}

func mkMsg(name string, id int, specs []spec, names []string, extFrom int) Msg {
	m := Msg{Name: name, ID: id}
	for i, s := range specs {
		fn := fmt.Sprintf("f%c", 'a'+i)
		if names != nil {
			fn = names[i]
		}
		m.Fields = append(m.Fields, Field{Name: fn, Type: s.Type, ArrayLen: s.ArrayLen, Enum: s.Enum, Ext: extFrom >= 0 && i >= extFrom})
	}
	return m
}

func valueEnums() []Enum {
	e := func(name string, bm bool, entries ...EnumEntry) Enum { return Enum{Name: name, Bitmask: bm, Entries: entries} }
	ones64 := strings.Repeat("1", 64)
	return []Enum{
		e("V_DEC", false, EnumEntry{"V_DEC_0", "0", 0}, EnumEntry{"V_DEC_1", "1", 1}, EnumEntry{"V_DEC_255", "255", 255}, EnumEntry{"V_DEC_65535", "65535", 65535},
			EnumEntry{"V_DEC_LZ10", "010", 10}, EnumEntry{"V_DEC_LZ8", "08", 8}, EnumEntry{"V_DEC_LZ17", "0017", 17}, EnumEntry{"V_DEC_LZ9", "09", 9},
			EnumEntry{"V_DEC_U32", "4294967295", 4294967295}, EnumEntry{"V_DEC_I63", "9223372036854775807", 1<<63 - 1}, EnumEntry{"V_DEC_U64", "18446744073709551615", ^uint64(0)}),
		e("V_HEX", false, EnumEntry{"V_HEX_0", "0x0", 0}, EnumEntry{"V_HEX_10", "0x10", 16}, EnumEntry{"V_HEX_FF", "0xFF", 255}, EnumEntry{"V_HEX_LOWER", "0xab", 0xab},
			EnumEntry{"V_HEX_U64", "0xFFFFFFFFFFFFFFFF", ^uint64(0)}, EnumEntry{"V_HEX_8000", "0x8000", 0x8000}, EnumEntry{"V_HEX_UPPER", "0xABCDEF", 0xABCDEF}, EnumEntry{"V_HEX_LZ", "0x0020", 32}, EnumEntry{"V_HEX_2P63", "0x8000000000000000", 1 << 63}),
		e("V_BIN", false, EnumEntry{"V_BIN_1", "0b1", 1}, EnumEntry{"V_BIN_1000", "0b1000", 8}, EnumEntry{"V_BIN_101", "0b00000101", 5}, EnumEntry{"V_BIN_ALL", "0b" + ones64, ^uint64(0)}),
		e("V_POW", false, EnumEntry{"V_POW_2_0", "2**0", 1}, EnumEntry{"V_POW_2_10", "2**10", 1024}, EnumEntry{"V_POW_2_63", "2**63", 1 << 63}, EnumEntry{"V_POW_10_3", "10**3", 1000},
			EnumEntry{"V_POW_3_2", "3**2", 9}, EnumEntry{"V_POW_2_1", "2**1", 2}, EnumEntry{"V_POW_7_1", "7**1", 7}, EnumEntry{"V_POW_5_4", "5**4", 625}, EnumEntry{"V_POW_2_32", "2**32", 1 << 32}, EnumEntry{"V_POW_2_40", "2**40", 1 << 40}, EnumEntry{"V_POW_2_31", "2**31", 1 << 31}),
		e("V_FLAGS_DENSE", true, EnumEntry{"V_FD_A", "1", 1}, EnumEntry{"V_FD_B", "2", 2}, EnumEntry{"V_FD_C", "4", 4}),
		e("V_FLAGS_SPARSE", true, EnumEntry{"V_FS_A", "1", 1}, EnumEntry{"V_FS_B", "0x80", 128}, EnumEntry{"V_FS_C", "2**40", 1 << 40}, EnumEntry{"V_FS_D", "0b1" + strings.Repeat("0", 63), 1 << 63}),
		e("V_FLAGS_MIXED", true, EnumEntry{"V_FM_A", "0b10", 2}, EnumEntry{"V_FM_B", "2**5", 32}, EnumEntry{"V_FM_C", "0x100", 256}),
	}
}

// docs builds every document of the bounded grammar and the per-package expectations.
func docs(thorough bool) ([]Doc, []Pkg) {
	var ds []Doc
	var ps []Pkg
	addPkg := func(main string, version int, docs ...*Doc) {
		p := Pkg{Name: strings.ToLower(strings.ReplaceAll(strings.TrimSuffix(main, ".xml"), "_", "")), Main: main, Version: version}
		enumIdx := map[string]int{}
		for _, d := range docs {
			p.Msgs = append(p.Msgs, d.Msgs...)
			for _, e := range d.Enums {
				if i, ok := enumIdx[e.Name]; ok {
					p.Enums[i].Entries = append(p.Enums[i].Entries, e.Entries...)
				} else {
					enumIdx[e.Name] = len(p.Enums)
					ec := e
					ec.Entries = append([]EnumEntry{}, e.Entries...)
					p.Enums = append(p.Enums, ec)
				}
			}
		}
		ps = append(ps, p)
	}
	full := fullSpecs()
	// gram_a: all 1- and 2-field messages
	a := Doc{File: "gram_a.xml", Version: "3", Enums: fieldEnums()}
	id := 1000
	for i, s := range full {
		a.Msgs = append(a.Msgs, mkMsg(fmt.Sprintf("ONE_%d", i), id, []spec{s}, nil, -1))
		id++
	}
	for i, s1 := range full {
		for j, s2 := range full {
			if s1.size()+s2.size() > 255 {
				continue
			}
			if !thorough && (i*7+j)%3 != 0 && i != j {
				continue // quick: a third of the pairs
			}
			a.Msgs = append(a.Msgs, mkMsg(fmt.Sprintf("TWO_%d_%d", i, j), id, []spec{s1, s2}, nil, -1))
			id++
			a.Msgs = append(a.Msgs, mkMsg(fmt.Sprintf("TWO_%d_%d_X", i, j), id, []spec{s1, s2}, nil, 1))
			id++
		}
	}
	ds = append(ds, a)
	addPkg("gram_a.xml", 3, &a)
	// gram_b: 3-field messages over the reduced alphabet at every extension boundary, names, ids
	b := Doc{File: "gram_b.xml", Version: "2", Enums: fieldEnums()}
	red := reducedSpecs()
	id = 70000
	for i, s1 := range red {
		for j, s2 := range red {
			for k, s3 := range red {
				for _, ext := range []int{-1, 1, 2} {
					b.Msgs = append(b.Msgs, mkMsg(fmt.Sprintf("TRI_%d_%d_%d_E%d", i, j, k, ext+1), id, []spec{s1, s2, s3}, nil, ext))
					id++
				}
			}
		}
	}
	fieldNames := []string{"snake_case", "camelCase", "Leading", "digit2", "under_1", "double__underscore", "x", "type", "a_b_c", "ALLCAPS", "mixed_Case_name", "trailing_"}
	for i, fn := range fieldNames {
		b.Msgs = append(b.Msgs, mkMsg(fmt.Sprintf("NAME_%d", i), 400+i, []spec{{Type: "uint16_t"}, {Type: "uint32_t"}, {Type: "uint8_t", ArrayLen: 2}}, []string{"first", fn, "last"}, -1))
	}
	for i, mn := range []string{"A", "AB_C", "A1", "A_1", "A_1B", "LONG_MESSAGE_NAME_WITH_MANY_PARTS", "X2Y", "A__B", "Z_"} {
		b.Msgs = append(b.Msgs, mkMsg(mn, 500+i, []spec{{Type: "float"}, {Type: "uint8_t"}}, nil, -1))
	}
	for i, bid := range []int{0, 255, 256, 65535, 65536, 1<<24 - 1} {
		b.Msgs = append(b.Msgs, mkMsg(fmt.Sprintf("ID_%d", i), bid, []spec{{Type: "uint8_t"}, {Type: "uint64_t"}}, nil, -1))
	}
	// messages without extensions right after messages with extensions (state must not leak)
	for i, mn := range []string{"AFTER_EXT_SHORT", "AFTER_EXTENSION_MESSAGE_WITH_A_LONG_NAME", "Q"} {
		b.Msgs = append(b.Msgs, mkMsg(fmt.Sprintf("WITH_EXT_BEFORE_%d", i), 700+2*i, []spec{{Type: "uint8_t"}, {Type: "uint16_t"}}, nil, 1))
		b.Msgs = append(b.Msgs, mkMsg(mn, 701+2*i, []spec{{Type: "uint32_t"}, {Type: "uint8_t"}}, nil, -1))
	}
	// the standard HEARTBEAT with uint8_t_mavlink_version must give CRC_EXTRA 50
	b.Msgs = append(b.Msgs, Msg{Name: "HEARTBEAT_COPY", ID: 600, Fields: []Field{
		{Name: "type", Type: "uint8_t", Enum: "E_U8"}, {Name: "autopilot", Type: "uint8_t", Enum: "E_U8"}, {Name: "base_mode", Type: "uint8_t"},
		{Name: "custom_mode", Type: "uint32_t"}, {Name: "system_status", Type: "uint8_t"}, {Name: "mavlink_version", Type: "uint8_t_mavlink_version"}}})
	ds = append(ds, b)
	addPkg("gram_b.xml", 2, &b)
	// enum value syntaxes
	ev := Doc{File: "enum_vals.xml", Version: "1", Enums: valueEnums(), Msgs: []Msg{mkMsg("EV", 1, []spec{{Type: "uint8_t"}}, nil, -1)}}
	ds = append(ds, ev)
	addPkg("enum_vals.xml", 1, &ev)
	// include graphs
	leaf := Doc{File: "inc_leaf.xml", Version: "5", Enums: []Enum{{Name: "SHARED", Entries: []EnumEntry{{"SHARED_A", "1", 1}}}}, Msgs: []Msg{mkMsg("LEAF_MSG", 10, []spec{{Type: "uint8_t"}, {Type: "uint32_t"}}, nil, -1)}}
	mid := Doc{File: "inc_mid.xml", Includes: []string{"inc_leaf.xml"}, Enums: []Enum{{Name: "SHARED", Entries: []EnumEntry{{"SHARED_B", "2", 2}}}}, Msgs: []Msg{mkMsg("MID_MSG", 11, []spec{{Type: "char", ArrayLen: 4}}, nil, -1)}}
	top := Doc{File: "inc_top.xml", Includes: []string{"inc_mid.xml"}, Enums: []Enum{{Name: "TOP_ONLY", Entries: []EnumEntry{{"TOP_ONLY_X", "0x20", 32}}}}, Msgs: []Msg{mkMsg("TOP_MSG", 12, []spec{{Type: "uint16_t", Enum: "TOP_ONLY"}, {Type: "double"}}, nil, 1)}}
	ds = append(ds, leaf, mid, top)
	addPkg("inc_top.xml", 5, &leaf, &mid, &top) // version only in the included leaf
	dbase := Doc{File: "dia_base.xml", Version: "4", Msgs: []Msg{mkMsg("BASE_MSG", 20, []spec{{Type: "int32_t"}}, nil, -1)}}
	dl := Doc{File: "dia_l.xml", Includes: []string{"dia_base.xml"}, Msgs: []Msg{mkMsg("L_MSG", 21, []spec{{Type: "int8_t"}, {Type: "int64_t"}}, nil, -1)}}
	dr := Doc{File: "dia_r.xml", Includes: []string{"dia_base.xml"}, Msgs: []Msg{mkMsg("R_MSG", 22, []spec{{Type: "float", ArrayLen: 2}}, nil, -1)}}
	dtop := Doc{File: "dia_top.xml", Version: "9", Includes: []string{"dia_l.xml", "dia_r.xml"}, Msgs: []Msg{mkMsg("DTOP_MSG", 23, []spec{{Type: "uint8_t"}}, nil, -1)}}
	ds = append(ds, dbase, dl, dr, dtop)
	addPkg("dia_top.xml", 9, &dbase, &dl, &dr, &dtop) // diamond: base once; version overridden by the top
	return ds, ps
}

type negDoc struct {
	name string
	doc  Doc
	raw  string
}

func negatives() []negDoc {
	return []negDoc{
		{name: "unknown type", doc: Doc{File: "neg_type.xml", Version: "1", Msgs: []Msg{mkMsg("BAD_TYPE", 1, []spec{{Type: "uint128_t"}}, nil, -1)}}},
		{name: "unknown array type", doc: Doc{File: "neg_atype.xml", Version: "1", Msgs: []Msg{mkMsg("BAD_ATYPE", 1, []spec{{Type: "bool", ArrayLen: 2}}, nil, -1)}}},
		{name: "lower-case message name", doc: Doc{File: "neg_name.xml", Version: "1", Msgs: []Msg{mkMsg("lower_case", 1, []spec{{Type: "uint8_t"}}, nil, -1)}}},
		{name: "unparsable decimal enum value", doc: Doc{File: "neg_enum1.xml", Version: "1", Enums: []Enum{{Name: "N", Entries: []EnumEntry{{"N_A", "12abc", 0}}}}}},
		{name: "unparsable hex enum value", doc: Doc{File: "neg_enum2.xml", Version: "1", Enums: []Enum{{Name: "N", Entries: []EnumEntry{{"N_A", "0xZZ", 0}}}}}},
		{name: "unparsable power enum value", doc: Doc{File: "neg_enum3.xml", Version: "1", Enums: []Enum{{Name: "N", Entries: []EnumEntry{{"N_A", "2**x", 0}}}}}},
		{name: "negative enum value", doc: Doc{File: "neg_enum4.xml", Version: "1", Enums: []Enum{{Name: "N", Entries: []EnumEntry{{"N_A", "-1", 0}}}}}},
		{name: "missing include", doc: Doc{File: "neg_inc.xml", Version: "1", Includes: []string{"does_not_exist.xml"}}},
		{name: "malformed XML", doc: Doc{File: "neg_xml.xml"}, raw: "<mavlink><messages><message id=\"1\" name=\"A\"></messages>"},
	}
}

func run(dir string, name string, args ...string) (string, error) {
	cmd := exec.Command(name, args...)
	cmd.Dir = dir
	cmd.Env = append(os.Environ(), "GOFLAGS=-mod=mod", "GOPROXY=off", "GOSUMDB=off", "GOTOOLCHAIN=local", "CGO_ENABLED=0")
	out, err := cmd.CombinedOutput()
	return string(out), err
}

// convertIn runs conversion.Convert(main) with dir as working directory.
func convertIn(dir, main string) (err error) {
	old, _ := os.Getwd()
	if e := os.Chdir(dir); e != nil {
		return e
	}
	defer os.Chdir(old) //nolint
	defer func() {
		if e := recover(); e != nil {
			err = fmt.Errorf("PANIC: %v", e)
		}
	}()
	// the generator logs to stderr: silence it
	devnull, _ := os.OpenFile(os.DevNull, os.O_WRONLY, 0)
	saved := os.Stderr
	os.Stderr = devnull
	defer func() { os.Stderr = saved; devnull.Close() }()
	return conversion.Convert(main, false)
}

func tree(dir string) map[string]string {
	out := map[string]string{}
	filepath.Walk(dir, func(p string, info os.FileInfo, err error) error {
		if err == nil && !info.IsDir() {
			b, _ := os.ReadFile(p)
			rel, _ := filepath.Rel(dir, p)
			out[rel] = string(b)
		}
		return nil
	})
	return out
}

func main() {
	r := bx.Start("C18", "translation_validation")
	r.Replayer = func(class string, raw json.RawMessage) (bool, string) {
		return true, "re-run the check (the pipeline regenerates and recompiles everything)"
	}
	if r.ReplayMode() {
		return
	}
	scr := os.Getenv("VERIF_SCRATCH")
	if scr == "" {
		bx.Fatalf("VERIF_SCRATCH not set (run through bin/check)")
	}
	root := bx.Root()
	ds, ps := docs(r.Thorough())
	failS := func(class, key, d string) { r.Fail(class, key, map[string]string{"key": key}, d) }
	writeDocs := func(dir string) {
		os.MkdirAll(dir, 0o755)
		for _, d := range ds {
			os.WriteFile(filepath.Join(dir, d.File), []byte(d.XML()), 0o644)
		}
	}
	// ---- generate twice
	run1, run2 := filepath.Join(scr, "c18run1"), filepath.Join(scr, "c18run2")
	writeDocs(run1)
	writeDocs(run2)
	programs := 0
	var okPkgs []Pkg
	for _, p := range ps {
		programs++
		e1 := convertIn(run1, p.Main)
		e2 := convertIn(run2, p.Main)
		if e1 != nil || e2 != nil {
			failS("convert", p.Main, fmt.Sprintf("valid document %s rejected by the generator: %v / %v", p.Main, e1, e2))
			continue
		}
		t1, t2 := tree(filepath.Join(run1, p.Name)), tree(filepath.Join(run2, p.Name))
		if len(t1) == 0 {
			failS("convert", p.Main, "no files generated")
			continue
		}
		same := len(t1) == len(t2)
		for k, v := range t1 {
			if t2[k] != v {
				same = false
				failS("determinism", p.Main+"/"+k, "generating twice gives different files: "+k)
				break
			}
		}
		if !same && len(t1) != len(t2) {
			failS("determinism", p.Main, fmt.Sprintf("generating twice gives %d vs %d files", len(t1), len(t2)))
		}
		okPkgs = append(okPkgs, p)
	}
	// ---- negative documents
	negDir := filepath.Join(scr, "c18neg")
	os.MkdirAll(negDir, 0o755)
	nneg := 0
	for _, nd := range negatives() {
		nneg++
		content := nd.raw
		if content == "" {
			content = nd.doc.XML()
		}
		os.WriteFile(filepath.Join(negDir, nd.doc.File), []byte(content), 0o644)
		if err := convertIn(negDir, nd.doc.File); err == nil {
			failS("negative", nd.name, fmt.Sprintf("document with %s accepted by the generator (no error)", nd.name))
		} else if strings.HasPrefix(err.Error(), "PANIC") {
			failS("negative", nd.name, fmt.Sprintf("document with %s makes the generator panic: %v", nd.name, err))
		}
	}
	// ---- compile the generated packages with the driver
	overlay := map[string]string{}
	var reg strings.Builder
	reg.WriteString("// generated registry\npackage main\n\nimport (\n")
	for _, p := range okPkgs {
		fmt.Fprintf(&reg, "\t%s \"verif/gen/c18out/%s\"\n", p.Name, p.Name)
		for rel := range tree(filepath.Join(run1, p.Name)) {
			overlay[filepath.Join(root, "gen", "c18out", p.Name, rel)] = filepath.Join(run1, p.Name, rel)
		}
	}
	reg.WriteString(")\n\nfunc init() {\n")
	for _, p := range okPkgs {
		fmt.Fprintf(&reg, "\tDialects[%q] = %s.Dialect\n\tEnums[%q] = map[string]*EnumFuncs{}\n", p.Name, p.Name, p.Name)
		for _, e := range p.Enums {
			fmt.Fprintf(&reg, "\tEnums[%q][%q] = &EnumFuncs{Consts: map[string]uint64{", p.Name, e.Name)
			for _, en := range e.Entries {
				fmt.Fprintf(&reg, "%q: uint64(%s.%s), ", en.Name, p.Name, en.Name)
			}
			q := p.Name + "." + e.Name
			fmt.Fprintf(&reg, "},\n\t\tMarshal: func(v uint64) (string, error) { b, err := %s(v).MarshalText(); return string(b), err },\n", q)
			fmt.Fprintf(&reg, "\t\tUnmarshal: func(s string) (uint64, error) { var e %s; err := e.UnmarshalText([]byte(s)); return uint64(e), err }}\n", q)
		}
	}
	reg.WriteString("}\n")
	regFile := filepath.Join(scr, "c18_zz_reg.go")
	os.WriteFile(regFile, []byte(reg.String()), 0o644)
	overlay[filepath.Join(root, "gen", "c18drv", "zz_reg.go")] = regFile
	ovb, _ := json.Marshal(map[string]any{"Replace": overlay})
	ovFile := filepath.Join(scr, "c18overlay.json")
	os.WriteFile(ovFile, ovb, 0o644)
	descFile := filepath.Join(scr, "c18desc.json")
	db, _ := json.Marshal(okPkgs)
	os.WriteFile(descFile, db, 0o644)
	drv := filepath.Join(scr, "c18drv.bin")
	modfile := os.Getenv("VERIF_MODFILE")
	if modfile == "" {
		modfile = filepath.Join(root, "go.mod")
	}
	nmsgs, evals, enumVals := 0, 0, 0
	if out, err := run(root, "go", "build", "-modfile="+modfile, "-overlay", ovFile, "-o", drv, "./gen/c18drv"); err != nil {
		failS("compile", "generated packages", "the generated packages do not compile:\n"+tailS(out, 3000))
	} else {
		cmd := exec.Command(drv, descFile)
		var stdout, stderr bytes.Buffer
		cmd.Stdout, cmd.Stderr = &stdout, &stderr
		if err := cmd.Run(); err != nil {
			failS("driver", "run", "the compiled generated code crashed: "+tailS(stderr.String(), 3000))
		} else {
			var o struct {
				Problems []struct{ Class, Key, Detail string }
				Messages, Evaluations int
				EnumValues            int `json:"enum_values"`
				Samples               []any
			}
			if err := json.Unmarshal(stdout.Bytes(), &o); err != nil {
				bx.Fatalf("driver output: %v", err)
			}
			for _, p := range o.Problems {
				failS(p.Class, p.Key, p.Key+": "+p.Detail)
			}
			nmsgs, evals, enumVals = o.Messages, o.Evaluations, o.EnumValues
			for _, s := range o.Samples {
				r.Sample(s)
			}
		}
	}
	// ---- the command line tool on one positive and one negative document
	di := filepath.Join(scr, "dialect-import.bin")
	if out, err := run(root, "go", "build", "-modfile="+modfile, "-o", di, "github.com/bluenviron/gomavlib/v3/cmd/dialect-import"); err != nil {
		failS("cli", "build", "cmd/dialect-import does not build: "+tailS(out, 2000))
	} else {
		cli := filepath.Join(scr, "c18cli")
		writeDocs(cli)
		os.WriteFile(filepath.Join(cli, "neg_type.xml"), []byte(negatives()[0].doc.XML()), 0o644)
		if out, err := run(cli, di, "enum_vals.xml"); err != nil {
			failS("cli", "positive", "dialect-import fails on a valid document: "+tailS(out, 1000))
		} else if t := tree(filepath.Join(cli, "enumvals")); len(t) == 0 {
			failS("cli", "positive", "dialect-import wrote nothing")
		} else {
			for k, v := range tree(filepath.Join(run1, "enumvals")) {
				if t[k] != v {
					failS("cli", "positive", "dialect-import output differs from conversion.Convert output in "+k)
					break
				}
			}
		}
		if _, err := run(cli, di, "neg_type.xml"); err == nil {
			failS("cli", "negative", "dialect-import exits 0 on a document with an unknown type")
		}
	}
	nenums := 0
	for _, p := range okPkgs {
		nenums += len(p.Enums)
	}
	var names []string
	for _, p := range ps {
		names = append(names, fmt.Sprintf("%s(%d msgs, %d enums)", p.Name, len(p.Msgs), len(p.Enums)))
	}
	sort.Strings(names)
	r.Assumption = []string{
		"the grammar is bounded: <=3 fields per message, the listed field specs (11 wire types x scalar/[2]/[max], char variants, 6 enum widths, enum arrays, uint8_t_mavlink_version), names and ids; link mode off",
		"out of the grammar: enum-typed fields of widths the codec does not support (rejected at dialect initialisation, not at generation), arrays / messages longer than 255 bytes",
	}
	r.Finish(map[string]any{
		"programs":              nmsgs + nenums + nneg,
		"documents":             programs + nneg,
		"disagreements_checked": nmsgs + enumVals,
		"evaluations":           evals + enumVals + programs + nneg,
		"distinct_nontrivial":   nmsgs,
		"rule":                  "every XML document of the bounded grammar is generated; Convert runs twice (byte-identical trees); generated packages are compiled once with a driver; per message: CRC_EXTRA, sizes and the encodings of base and per-element probe values in both versions vs the reference computed from the XML descriptor; per enum: constants vs the meaning of the XML value text, text round trip; negative documents must be rejected",
		"packages":              names,
		"messages_validated":    nmsgs,
		"negative_documents":    nneg,
	})
}

func tailS(s string, n int) string {
	if len(s) > n {
		return s[len(s)-n:]
	}
	return s
}
