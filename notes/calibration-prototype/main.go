package main

import (
	"fmt"
	"os"
	"strconv"
	"time"
)

// toy node: loop + reader + writer + consumer + closer + app writer
func toy(obs *[]string, obs2 *[]string) func() {
	return func() {
		chWrite := NewChan[int](0)
		terminate := NewChan[struct{}](0)
		events := NewChan[string](0)
		done := NewChan[struct{}](0)
		wq := NewChan[int](2)
		wdone := NewChan[struct{}](0)
		rdone := NewChan[struct{}](0)
		out := []int{}
		// writer
		Go(func() {
			for {
				i, v, ok := Select(false, CaseRecv(wq), CaseRecv(terminate))
				if i == 1 || !ok {
					break
				}
				out = append(out, v.(int))
			}
			wdone.Close()
		})
		// reader
		Go(func() {
			for _, e := range []string{"open", "f1", "f2"} {
				i, _, _ := Select(false, CaseSend(events, e), CaseRecv(terminate))
				if i == 1 {
					break
				}
			}
			rdone.Close()
		})
		// node loop
		Go(func() {
			for {
				i, v, _ := Select(false, CaseRecv(chWrite), CaseRecv(terminate))
				if i == 1 {
					break
				}
				Select(true, CaseSend(wq, v.(int)))
			}
			wdone.Recv2()
			rdone.Recv2()
			events.Close()
			done.Close()
		})
		// consumer
		Go(func() {
			for {
				e, ok := events.Recv2()
				if !ok {
					break
				}
				*obs = append(*obs, e)
			}
		})
		// app writer
		Go(func() {
			for k := 1; k <= 2; k++ {
				Select(false, CaseSend(chWrite, k), CaseRecv(terminate))
			}
		})
		// closer
		Go(func() {
			terminate.Close()
			done.Recv2()
			*obs2 = append(*obs2, fmt.Sprint("out=", out))
		})
	}
}

func main() {
	bound, _ := strconv.Atoi(os.Args[1])
	outcomes := map[string]int{}
	var obs, obs2 []string
	st := &stats{}
	t0 := time.Now()
	useCache = len(os.Args) < 3
	explore(nil, bound, func() { obs, obs2 = nil, nil; toy(&obs, &obs2)() }, func(r result) {
		if r.pruned {
			return
		}
		outcomes[fmt.Sprint(obs, obs2, r.deadlock)]++
	}, st)
	el := time.Since(t0)
	fmt.Printf("bound=%d execs=%d steps=%d deadlocks=%d pruned=%d cache=%d outcomes=%d  %.0f exec/s  %v\n", bound, st.execs, st.steps, st.deadlocks, st.pruned, len(cache), len(outcomes), float64(st.execs)/el.Seconds(), el)
	if len(outcomes) < 40 {
		for k, v := range outcomes {
			fmt.Println("  ", v, k)
		}
	}
}
