package main

import (
	"fmt"
	"runtime"
)

// ---- throwaway calibration prototype of the vmc core ----

type thread struct {
	id      int
	wake    chan struct{}
	enabled func() bool
	apply   func()
	done    bool
	parked  bool
	result  int // select: fired case
	val     any
	ok      bool
	fired   bool // op completed by a partner
	vc      []uint32
	objs    []*chanCore // objects inspected by the pending op
}

type choice struct {
	n      int  // number of options
	pick   int  // chosen index
	preempt bool // option 0 was "continue current"
}

type sched struct {
	threads []*thread
	cur     *thread
	prefix  []int
	trace   []choice
	steps   int
	abort   bool
	deadlock bool
	mainDone chan struct{}
	fp       uint64
	bound    int
	used     int
	pruned   bool
}

var cache = map[uint64]int8{}
var useCache = true

func join(a, b []uint32) []uint32 {
	for len(a) < len(b) {
		a = append(a, 0)
	}
	for i, v := range b {
		if v > a[i] {
			a[i] = v
		}
	}
	return a
}

func mix(h uint64, v uint64) uint64 {
	h ^= v + 0x9e3779b97f4a7c15 + (h << 6) + (h >> 2)
	h *= 0xff51afd7ed558ccd
	h ^= h >> 33
	return h
}

// event: thread t performed an op on objs with result res
func (s *sched) event(t *thread, objs []*chanCore, res int) {
	for len(t.vc) <= t.id {
		t.vc = append(t.vc, 0)
	}
	t.vc[t.id]++
	for _, o := range objs {
		if o != nil {
			t.vc = join(t.vc, o.vc)
		}
	}
	for _, o := range objs {
		if o != nil {
			o.vc = append(o.vc[:0], t.vc...)
		}
	}
	h := mix(uint64(t.id)+1, uint64(res)+7)
	for i, v := range t.vc {
		if v != 0 {
			h = mix(h, uint64(i)<<32|uint64(v))
		}
	}
	s.fp += h // commutative
}

var S *sched

func (s *sched) enabledList() []*thread {
	var out []*thread
	// canonical order: current first if enabled, then ascending ids
	if s.cur != nil && !s.cur.done && s.cur.parked && (s.cur.fired || s.cur.enabled()) {
		out = append(out, s.cur)
	}
	n := len(s.threads)
	start := 0
	if s.cur != nil {
		start = s.cur.id + 1
	}
	for k := 0; k < n; k++ {
		t := s.threads[(start+k)%n]
		if t == s.cur || t.done || !t.parked {
			continue
		}
		if t.fired || t.enabled() {
			out = append(out, t)
		}
	}
	return out
}

// pick next thread; called by the goroutine holding the baton
func (s *sched) next() *thread {
	en := s.enabledList()
	if len(en) == 0 {
		return nil
	}
	idx := 0
	if len(en) > 1 {
		k := len(s.trace)
		if k < len(s.prefix) {
			idx = s.prefix[k]
			if idx >= len(en) {
				panic("replay divergence")
			}
		} else if useCache {
			curid := -1
			if s.cur != nil {
				curid = s.cur.id
			}
			key := mix(s.fp, uint64(curid+2))
			for _, t := range s.threads {
				if t.fired && t.parked {
					key = mix(key, uint64(t.id)*1000003+17)
				}
			}
			rem := int8(s.bound - s.used)
			if v, ok := cache[key]; ok && v >= rem {
				s.pruned = true
				return nil
			}
			cache[key] = rem
		}
		pre := en[0] == s.cur
		s.used += idx
		s.trace = append(s.trace, choice{n: len(en), pick: idx, preempt: pre})
	}
	return en[idx]
}

func (s *sched) dispatch(self *thread) {
	// self is parked (or done). choose and hand over.
	s.steps++
	nx := s.next()
	if nx == nil {
		// quiescent: finish execution
		s.deadlock = !s.pruned
		s.abort = true
		for _, t := range s.threads {
			if !t.done && t != self && t.parked {
				t.parked = false
				t.wake <- struct{}{}
			}
		}
		if self != nil && !self.done {
			runtime.Goexit()
		}
		return
	}
	s.cur = nx
	nx.parked = false
	if !nx.fired {
		nx.apply()
	}
	nx.fired = false
	if nx == self {
		return
	}
	nx.wake <- struct{}{}
	if self != nil && !self.done {
		<-self.wake
		if s.abort {
			runtime.Goexit()
		}
	}
}

// op: publish and yield
func (s *sched) op(enabled func() bool, apply func()) {
	if s.abort {
		runtime.Goexit()
	}
	t := s.cur
	t.enabled, t.apply, t.parked = enabled, apply, true
	s.dispatch(t)
}

var live int

func Go(f func()) {
	s := S
	t := &thread{id: len(s.threads), wake: make(chan struct{}, 1)}
	s.threads = append(s.threads, t)
	if s.cur != nil {
		s.event(s.cur, nil, 98)
		t.vc = append([]uint32{}, s.cur.vc...)
	}
	t.enabled = func() bool { return true }
	t.apply = func() { s.event(t, nil, 97) } // thread start is an event (it publishes the first op)
	t.parked = true
	go func() {
		<-t.wake
		if s.abort {
			t.done = true
			s.exit(t)
			return
		}
		defer func() {
			t.done = true
			s.exit(t)
		}()
		f()
	}()
}

func (s *sched) exit(t *thread) {
	if s.abort {
		s.mainDone <- struct{}{}
		return
	}
	// thread finished: hand over baton
	all := true
	for _, x := range s.threads {
		if !x.done {
			all = false
		}
	}
	if all {
		s.mainDone <- struct{}{}
		return
	}
	s.steps++
	nx := s.next()
	if nx == nil {
		s.deadlock = !s.pruned
		s.abort = true
		for _, x := range s.threads {
			if !x.done && x.parked {
				x.parked = false
				x.wake <- struct{}{}
			}
		}
		s.mainDone <- struct{}{}
		return
	}
	s.cur = nx
	nx.parked = false
	if !nx.fired {
		nx.apply()
	}
	nx.fired = false
	nx.wake <- struct{}{}
	s.mainDone <- struct{}{}
}

// ---- channels ----

type waiter struct {
	t    *thread
	idx  int
	send bool
	val  any
	sel  *[]*waiterRef
}
type waiterRef struct {
	c *chanCore
	w *waiter
}

type chanCore struct {
	vc     []uint32
	cap    int
	buf    []any
	closed bool
	recvq  []*waiter
	sendq  []*waiter
}

type Chan[T any] struct{ c chanCore }

func NewChan[T any](n int) *Chan[T] { return &Chan[T]{c: chanCore{cap: n}} }

type Case struct {
	c    *chanCore
	send bool
	val  any
}

func CaseSend[T any](c *Chan[T], v T) Case { return Case{&c.c, true, v} }
func CaseRecv[T any](c *Chan[T]) Case     { return Case{c: &c.c} }

func caseReady(cs Case) bool {
	c := cs.c
	if c == nil {
		return false
	}
	if cs.send {
		return c.closed || len(c.buf) < c.cap || len(c.recvq) > 0
	}
	return c.closed || len(c.buf) > 0 || len(c.sendq) > 0
}

func remove(q []*waiter, t *thread) []*waiter {
	out := q[:0]
	for _, w := range q {
		if w.t != t {
			out = append(out, w)
		}
	}
	return out
}

func unregister(t *thread, cases []Case) {
	for _, cs := range cases {
		if cs.c == nil {
			continue
		}
		if cs.send {
			cs.c.sendq = remove(cs.c.sendq, t)
		} else {
			cs.c.recvq = remove(cs.c.recvq, t)
		}
	}
}

// Select returns fired index (-1 default), value, ok
func Select(hasDefault bool, cases ...Case) (int, any, bool) {
	s := S
	t := s.cur
	// register as waiter
	for i, cs := range cases {
		if cs.c == nil {
			continue
		}
		w := &waiter{t: t, idx: i, send: cs.send, val: cs.val}
		if cs.send {
			cs.c.sendq = append(cs.c.sendq, w)
		} else {
			cs.c.recvq = append(cs.c.recvq, w)
		}
	}
	t.result = -2
	s.op(func() bool {
		if hasDefault {
			return true
		}
		for _, cs := range cases {
			if selfReady(t, cs) {
				return true
			}
		}
		return false
	}, func() {
		var partners []func()
		defer func() {
			objs := make([]*chanCore, len(cases))
			for i, cs := range cases {
				objs[i] = cs.c
			}
			S.event(t, objs, t.result)
			for _, p := range partners {
				p()
			}
		}()
		unregister(t, cases)
		// first ready case in source order (choice among ready cases omitted in prototype)
		for i, cs := range cases {
			if !readyAfterUnreg(cs) {
				continue
			}
			c := cs.c
			if cs.send {
				if c.closed {
					panic("send on closed channel")
				}
				if len(c.recvq) > 0 {
					w := c.recvq[0]
					c.recvq = c.recvq[1:]
					w.t.result, w.t.val, w.t.ok, w.t.fired = w.idx, cs.val, true, true
					{ wt, wi := w.t, w.idx; partners = append(partners, func() { S.event(wt, []*chanCore{c}, wi) }) }
					unregisterAll(w.t)
				} else {
					c.buf = append(c.buf, cs.val)
				}
				t.result = i
				return
			}
			if len(c.buf) > 0 {
				t.val, t.ok = c.buf[0], true
				c.buf = c.buf[1:]
				if len(c.sendq) > 0 {
					w := c.sendq[0]
					c.sendq = c.sendq[1:]
					c.buf = append(c.buf, w.val)
					w.t.result, w.t.fired = w.idx, true
					{ wt, wi := w.t, w.idx; partners = append(partners, func() { S.event(wt, []*chanCore{c}, wi) }) }
					unregisterAll(w.t)
				}
			} else if len(c.sendq) > 0 {
				w := c.sendq[0]
				c.sendq = c.sendq[1:]
				t.val, t.ok = w.val, true
				w.t.result, w.t.fired = w.idx, true
				{ wt, wi := w.t, w.idx; partners = append(partners, func() { S.event(wt, []*chanCore{c}, wi) }) }
				unregisterAll(w.t)
			} else { // closed
				t.val, t.ok = nil, false
			}
			t.result = i
			return
		}
		t.result = -1
	})
	if t.result >= 0 {
		unregister(t, cases)
	}
	return t.result, t.val, t.ok
}

var regs = map[*thread][]Case{}

func unregisterAll(t *thread) { /* lazily done by the woken thread via unregister(t, cases) */ }

func selfReady(t *thread, cs Case) bool {
	c := cs.c
	if c == nil {
		return false
	}
	if cs.send {
		if c.closed || len(c.buf) < c.cap {
			return true
		}
		for _, w := range c.recvq {
			if w.t != t && !w.t.fired {
				return true
			}
		}
		return false
	}
	if c.closed || len(c.buf) > 0 {
		return true
	}
	for _, w := range c.sendq {
		if w.t != t && !w.t.fired {
			return true
		}
	}
	return false
}

func readyAfterUnreg(cs Case) bool {
	c := cs.c
	if c == nil {
		return false
	}
	clean := func(q []*waiter) []*waiter {
		out := q[:0]
		for _, w := range q {
			if !w.t.fired {
				out = append(out, w)
			}
		}
		return out
	}
	c.recvq, c.sendq = clean(c.recvq), clean(c.sendq)
	return caseReady(cs)
}

func (c *Chan[T]) Send(v T) { Select(false, CaseSend(c, v)) }
func (c *Chan[T]) Recv2() (T, bool) {
	_, v, ok := Select(false, CaseRecv(c))
	if !ok {
		var z T
		return z, false
	}
	return v.(T), true
}
func (c *Chan[T]) Recv() T { v, _ := c.Recv2(); return v }
func (c *Chan[T]) Close() {
	S.op(func() bool { return true }, func() {
		if c.c.closed {
			panic("close of closed channel")
		}
		c.c.closed = true
		S.event(S.cur, []*chanCore{&c.c}, 99)
	})
}

// ---- explorer ----

type result struct {
	trace    []choice
	deadlock bool
	steps    int
	pruned   bool
}

func runOnce(prefix []int, bound int, body func()) result {
	s := &sched{prefix: prefix, bound: bound, mainDone: make(chan struct{}, 64)}
	S = s
	Go(body)
	// kick
	t0 := s.threads[0]
	s.cur = t0
	t0.parked = false
	t0.wake <- struct{}{}
	// wait until all threads have exited
	n := 0
	for {
		<-s.mainDone
		n++
		alldone := true
		for _, t := range s.threads {
			if !t.done {
				alldone = false
			}
		}
		if alldone && n >= len(s.threads) {
			break
		}
	}
	return result{s.trace, s.deadlock, s.steps, s.pruned}
}

type stats struct{ execs, steps, deadlocks, pruned int }

func explore(prefix []int, bound int, body func(), check func(result), st *stats) {
	r := runOnce(prefix, bound, body)
	if r.pruned {
		st.pruned++
	}
	st.execs++
	st.steps += r.steps
	if r.deadlock {
		st.deadlocks++
	}
	check(r)
	// preemptions used so far along the trace
	used := 0
	for i, c := range r.trace {
		if i >= len(prefix) {
			for alt := 1; alt < c.n; alt++ {
				cost := used + alt
				if cost > bound {
					continue
				}
				np := make([]int, i+1)
				for j := 0; j < i; j++ {
					np[j] = r.trace[j].pick
				}
				np[i] = alt
				explore(np, bound, body, check, st)
			}
		}
		used += c.pick
	}
}

var _ = fmt.Sprint
