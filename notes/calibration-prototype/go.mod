module sched
go 1.21
