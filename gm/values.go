package gm

import (
	"bytes"
	"fmt"
	"reflect"
	"strings"

	"github.com/bluenviron/gomavlib/v3/pkg/message"

	"verif/ref"
)

// Boundary returns the boundary bit patterns of a wire type (as raw bits).
func Boundary(t string) []uint64 {
	sz := ref.TypeSize(t)
	m := ^uint64(0)
	if sz < 8 {
		m = (uint64(1) << (8 * uint(sz))) - 1
	}
	sign := uint64(1) << (8*uint(sz) - 1)
	out := []uint64{0, 1, m, sign, sign - 1, m - 1, 0x0102030405060708 & m, 0x80 & m, 0xFE & m, 0xFD & m}
	switch t {
	case "float":
		out = append(out, 0x7FC00000, 0x7FA00001, 0xFFC00001, 0x80000000, 0x7F800000, 0xFF800000, 0x00000001, 0x3F800000)
	case "double":
		out = append(out, 0x7FF8000000000000, 0x7FF4000000000001, 0x8000000000000000, 0x7FF0000000000000, 0xFFF0000000000000, 1, 0x3FF0000000000000)
	}
	// every byte lane alone
	for k := 0; k < sz; k++ {
		out = append(out, uint64(0xA5)<<(8*uint(k)))
	}
	// dedupe
	seen := map[uint64]bool{}
	var o []uint64
	for _, v := range out {
		if !seen[v] {
			seen[v] = true
			o = append(o, v)
		}
	}
	return o
}

// EnumBoundary adds values above the wire width (an enum is an uint64 on the Go side).
func EnumBoundary(t string) []uint64 {
	out := Boundary(t)
	sz := ref.TypeSize(t)
	if sz < 8 {
		out = append(out, uint64(1)<<(8*uint(sz)), (uint64(1)<<(8*uint(sz)))|3, ^uint64(0))
	}
	return out
}

// Strings returns test strings for a char field of wire length n: every length 0..n+1, an
// embedded NUL, a leading NUL, high bytes.
func Strings(n int) []string {
	var out []string
	for l := 0; l <= n+1; l++ {
		out = append(out, strings.Repeat("abcdefghij", l/10+1)[:l])
	}
	if n >= 1 {
		out = append(out, "\x00", strings.Repeat("\xff", n))
	}
	if n >= 3 {
		out = append(out, "a\x00b", "\x00bc", strings.Repeat("z", n-1)+"\x00")
	}
	if n >= 2 {
		out = append(out, strings.Repeat("q", n)+"\x00tail")
	}
	return out
}

// BaseVals returns base assignments: all zero, all ones, counting; kind 3: the extreme bit
// patterns (signalling NaNs with a payload for floats, the most negative value for integers),
// kind 4: negative zero / infinities / sign bit only.
func BaseVals(d *ref.MsgDef, kind int) []ref.Val {
	vals := d.ZeroVals()
	k := uint64(1)
	for fi, f := range d.Fields {
		if !vals[fi].IsS && (kind == 3 || kind == 4) {
			for j := range vals[fi].Bits {
				sz := uint(ref.TypeSize(f.Type))
				switch {
				case f.Type == "float" && kind == 3:
					vals[fi].Bits[j] = []uint64{0x7F800001, 0xFF800001, 0x7FA00000}[j%3]
				case f.Type == "double" && kind == 3:
					vals[fi].Bits[j] = []uint64{0x7FF0000000000001, 0xFFF0000000000001, 0x7FF4000000000000}[j%3]
				case f.Type == "float":
					vals[fi].Bits[j] = []uint64{0x80000000, 0x7F800000, 0xFF800000}[j%3]
				case f.Type == "double":
					vals[fi].Bits[j] = []uint64{0x8000000000000000, 0x7FF0000000000000, 0xFFF0000000000000}[j%3]
				default:
					vals[fi].Bits[j] = uint64(1) << (8*sz - 1) // sign bit only
					if kind == 4 && sz < 8 {
						vals[fi].Bits[j] = (uint64(1) << (8*sz - 1)) - 1
					}
				}
			}
			continue
		}
		if vals[fi].IsS {
			n := f.ArrayLen
			if n == 0 {
				n = 1
			}
			switch kind {
			case 1:
				vals[fi].Str = strings.Repeat("\xff", n)
			case 2:
				vals[fi].Str = strings.Repeat("mavlink", n/7+1)[:(n+1)/2]
			}
			continue
		}
		for j := range vals[fi].Bits {
			switch kind {
			case 1:
				vals[fi].Bits[j] = ^uint64(0)
			case 2:
				vals[fi].Bits[j] = k * 0x0102030405060708
				k++
			}
		}
	}
	return vals
}

// CodecCase is one (type, value, version) evaluation.
type CodecCase struct {
	Type string    `json:"type"`
	V2   bool      `json:"v2"`
	Vals []ref.Val `json:"vals"`
}

// EvalCodec checks Write against ref.Encode and Read(ref.Encode(...)) against the canonical
// reference values, plus Read(Write(m)).
func EvalCodec(mt *MsgType, vals []ref.Val, v2 bool) string {
	msg := mt.New()
	ref.SetStruct(mt.Def, reflect.ValueOf(msg), vals)
	in := ref.ValsFromStruct(mt.Def, reflect.ValueOf(msg))
	want := mt.Def.Encode(in, v2)
	raw := mt.RW.Write(msg, v2)
	if raw == nil {
		return "Write returned nil"
	}
	if raw.ID != mt.ID {
		return fmt.Sprintf("Write id %d, want %d", raw.ID, mt.ID)
	}
	if !bytes.Equal(raw.Payload, want) {
		// a Go string with an embedded NUL: what is written after the NUL is invisible to every
		// receiver (strings are cut at the first NUL) and the statements leave it open: the
		// encoding of the string cut at its first NUL is accepted as well
		cut := ref.CloneVals(in)
		hasNUL := false
		for i := range cut {
			if cut[i].IsS {
				if k := strings.IndexByte(cut[i].Str, 0); k >= 0 {
					cut[i].Str, hasNUL = cut[i].Str[:k], true
				}
			}
		}
		if !hasNUL || !bytes.Equal(raw.Payload, mt.Def.Encode(cut, v2)) {
			return fmt.Sprintf("Write payload % x, spec encoding % x", raw.Payload, want)
		}
	}
	if _, ext := mt.Def.Sizes(); v2 && ext > 0 && (len(raw.Payload) < 1 || (len(raw.Payload) > 1 && raw.Payload[len(raw.Payload)-1] == 0)) {
		return fmt.Sprintf("v2 payload not truncated to >=1 byte without trailing zero: % x", raw.Payload)
	}
	canon := mt.Def.Canon(in, v2)
	// decode the reference encoding (own copy, exact capacity)
	p := append(make([]byte, 0, len(want)), want...)
	got, err := mt.RW.Read(&message.MessageRaw{ID: mt.ID, Payload: p}, v2)
	if err != nil {
		return "Read of the spec encoding failed: " + err.Error()
	}
	if reflect.TypeOf(got) != reflect.PtrTo(mt.Type) {
		return fmt.Sprintf("Read returned %T", got)
	}
	if gv := ref.ValsFromStruct(mt.Def, reflect.ValueOf(got)); !ref.EqualVals(gv, canon) {
		return fmt.Sprintf("Read gives %v, canonical value %v (payload % x)", gv, canon, want)
	}
	// the message handed to Write is not modified
	if after := ref.ValsFromStruct(mt.Def, reflect.ValueOf(msg)); !ref.EqualVals(after, in) {
		return "Write modified its input message"
	}
	return ""
}

// AcceptedShapes splits a corpus of user-defined message structs into those the library
// accepts (message.ReadWriter.Initialize succeeds) and those it refuses. The properties
// quantify over "any user-defined message struct the library accepts": a refused struct is
// outside the quantifier, not a violation (refusals are counted in the evidence).
func AcceptedShapes(all []message.Message) (accepted []message.Message, refused map[string]string) {
	refused = map[string]string{}
	for _, m := range all {
		rw := &message.ReadWriter{Message: m}
		var err error
		func() {
			defer func() {
				if e := recover(); e != nil {
					err = fmt.Errorf("panic: %v", e)
				}
			}()
			err = rw.Initialize()
		}()
		if err != nil {
			refused[reflect.TypeOf(m).Elem().Name()] = err.Error()
			continue
		}
		accepted = append(accepted, m)
	}
	return accepted, refused
}
