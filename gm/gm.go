// Package gm holds the gomavlib-facing helpers shared by the engine-A checks: the shipped
// dialect corpus, frame conversion to/from the reference model, and an instrumented
// transport (chunking, fault injection, consumption accounting).
package gm

import (
	"fmt"
	"io"
	"reflect"
	"sort"

	"github.com/bluenviron/gomavlib/v3/pkg/dialect"
	"github.com/bluenviron/gomavlib/v3/pkg/dialects/all"
	"github.com/bluenviron/gomavlib/v3/pkg/dialects/ardupilotmega"
	"github.com/bluenviron/gomavlib/v3/pkg/dialects/asluav"
	"github.com/bluenviron/gomavlib/v3/pkg/dialects/avssuas"
	"github.com/bluenviron/gomavlib/v3/pkg/dialects/common"
	"github.com/bluenviron/gomavlib/v3/pkg/dialects/csairlink"
	"github.com/bluenviron/gomavlib/v3/pkg/dialects/cubepilot"
	"github.com/bluenviron/gomavlib/v3/pkg/dialects/development"
	"github.com/bluenviron/gomavlib/v3/pkg/dialects/icarous"
	"github.com/bluenviron/gomavlib/v3/pkg/dialects/loweheiser"
	"github.com/bluenviron/gomavlib/v3/pkg/dialects/matrixpilot"
	"github.com/bluenviron/gomavlib/v3/pkg/dialects/minimal"
	"github.com/bluenviron/gomavlib/v3/pkg/dialects/paparazzi"
	"github.com/bluenviron/gomavlib/v3/pkg/dialects/pythonarraytest"
	"github.com/bluenviron/gomavlib/v3/pkg/dialects/standard"
	"github.com/bluenviron/gomavlib/v3/pkg/dialects/storm32"
	"github.com/bluenviron/gomavlib/v3/pkg/dialects/test"
	"github.com/bluenviron/gomavlib/v3/pkg/dialects/ualberta"
	"github.com/bluenviron/gomavlib/v3/pkg/dialects/uavionix"
	"github.com/bluenviron/gomavlib/v3/pkg/frame"
	"github.com/bluenviron/gomavlib/v3/pkg/message"

	"verif/ref"
)

// NamedDialect is a shipped dialect.
type NamedDialect struct {
	Name string
	D    *dialect.Dialect
}

// Dialects lists the 19 shipped dialect packages.
var Dialects = []NamedDialect{
	{"all", all.Dialect}, {"ardupilotmega", ardupilotmega.Dialect}, {"asluav", asluav.Dialect},
	{"avssuas", avssuas.Dialect}, {"common", common.Dialect}, {"csairlink", csairlink.Dialect},
	{"cubepilot", cubepilot.Dialect}, {"development", development.Dialect}, {"icarous", icarous.Dialect},
	{"loweheiser", loweheiser.Dialect}, {"matrixpilot", matrixpilot.Dialect}, {"minimal", minimal.Dialect},
	{"paparazzi", paparazzi.Dialect}, {"pythonarraytest", pythonarraytest.Dialect}, {"standard", standard.Dialect},
	{"storm32", storm32.Dialect}, {"test", test.Dialect}, {"ualberta", ualberta.Dialect}, {"uavionix", uavionix.Dialect},
}

// MsgType is one distinct message struct type of the corpus.
type MsgType struct {
	Dialect string // first dialect (in list order) that ships it
	Type    reflect.Type
	ID      uint32
	Def     *ref.MsgDef
	RW      *message.ReadWriter
	DRW     *dialect.ReadWriter // the dialect it was found in
	Proto   message.Message
}

// Name is "dialect.MessageX".
func (m *MsgType) Name() string { return m.Dialect + "." + m.Type.Name() }

// New allocates a zero message of the type.
func (m *MsgType) New() message.Message {
	return reflect.New(m.Type).Interface().(message.Message)
}

// DialectRW initialises a dialect ReadWriter (panics on error: shipped dialects initialise,
// which C17 checks separately).
func DialectRW(d *dialect.Dialect) (*dialect.ReadWriter, error) {
	rw := &dialect.ReadWriter{Dialect: d}
	err := rw.Initialize()
	return rw, err
}

// Corpus returns every distinct message struct type of the shipped dialects, sorted by
// (dialect order, id).
func Corpus() ([]*MsgType, error) {
	seen := map[reflect.Type]bool{}
	var out []*MsgType
	for _, nd := range Dialects {
		drw, err := DialectRW(nd.D)
		if err != nil {
			return nil, fmt.Errorf("dialect %s: %w", nd.Name, err)
		}
		msgs := append([]message.Message{}, nd.D.Messages...)
		sort.SliceStable(msgs, func(i, j int) bool { return msgs[i].GetID() < msgs[j].GetID() })
		for _, m := range msgs {
			t := reflect.TypeOf(m).Elem()
			if seen[t] {
				continue
			}
			seen[t] = true
			def, err := ref.DefFromStruct(t, m.GetID())
			if err != nil {
				return nil, fmt.Errorf("%s.%s: %w", nd.Name, t.Name(), err)
			}
			rw := drw.GetMessage(m.GetID())
			if rw == nil {
				return nil, fmt.Errorf("%s.%s: no codec for id %d", nd.Name, t.Name(), m.GetID())
			}
			out = append(out, &MsgType{Dialect: nd.Name, Type: t, ID: m.GetID(), Def: def, RW: rw, DRW: drw, Proto: m})
		}
	}
	return out, nil
}

// ToRef converts a gomavlib frame holding a *MessageRaw to the reference form (ok=false
// when the message is decoded).
func ToRef(fr frame.Frame) (*ref.Frame, bool) {
	switch f := fr.(type) {
	case *frame.V1Frame:
		raw, ok := f.Message.(*message.MessageRaw)
		out := &ref.Frame{Seq: f.SequenceNumber, Sys: f.SystemID, Comp: f.ComponentID, Checksum: f.Checksum}
		if f.Message != nil {
			out.ID = f.Message.GetID()
		}
		if ok {
			out.Payload = raw.Payload
		}
		return out, ok
	case *frame.V2Frame:
		raw, ok := f.Message.(*message.MessageRaw)
		out := &ref.Frame{V2: true, Incompat: f.IncompatibilityFlag, Compat: f.CompatibilityFlag,
			Seq: f.SequenceNumber, Sys: f.SystemID, Comp: f.ComponentID, Checksum: f.Checksum,
			LinkID: f.SignatureLinkID, Timestamp: f.SignatureTimestamp}
		if f.Message != nil {
			out.ID = f.Message.GetID()
		}
		if f.Signature != nil {
			out.Sig = *f.Signature
		}
		if ok {
			out.Payload = raw.Payload
		}
		return out, ok
	}
	return nil, false
}

// FromRef builds a gomavlib frame with a raw message.
func FromRef(f *ref.Frame) frame.Frame {
	raw := &message.MessageRaw{ID: f.ID, Payload: f.Payload}
	if !f.V2 {
		return &frame.V1Frame{SequenceNumber: f.Seq, SystemID: f.Sys, ComponentID: f.Comp, Message: raw, Checksum: f.Checksum}
	}
	out := &frame.V2Frame{IncompatibilityFlag: f.Incompat, CompatibilityFlag: f.Compat, SequenceNumber: f.Seq,
		SystemID: f.Sys, ComponentID: f.Comp, Message: raw, Checksum: f.Checksum}
	if f.Signed() {
		out.SignatureLinkID = f.LinkID
		out.SignatureTimestamp = f.Timestamp
		s := frame.V2Signature(f.Sig)
		out.Signature = &s
	}
	return out
}

// Transport is an io.Reader over a fixed byte string with chosen chunk boundaries and one
// optional injected fault.
type Transport struct {
	Data []byte
	Cuts []int // ascending absolute offsets where a Read must stop (chunk ends)
	// fault: when FaultErr != nil, no byte at offset >= FaultAt is ever delivered. Style 0:
	// the Read arriving at FaultAt returns (0, err). Style 1: the Read that delivers the last
	// bytes before FaultAt returns (n>0, err) (if FaultAt==pos it degenerates to (0,err)).
	FaultAt    int
	FaultErr   error
	FaultStyle int
	// EOFErr is returned at the end of data when no fault is set (default io.EOF).
	Pos   int
	Drawn int
	Calls int
}

func (t *Transport) Read(p []byte) (int, error) {
	t.Calls++
	if len(p) == 0 {
		return 0, nil
	}
	limit := len(t.Data)
	if t.FaultErr != nil && t.FaultAt < limit {
		limit = t.FaultAt
	}
	if t.Pos >= limit {
		if t.FaultErr != nil {
			return 0, t.FaultErr
		}
		return 0, io.EOF
	}
	end := limit
	for _, c := range t.Cuts {
		if c > t.Pos {
			if c < end {
				end = c
			}
			break
		}
	}
	if end-t.Pos > len(p) {
		end = t.Pos + len(p)
	}
	n := copy(p, t.Data[t.Pos:end])
	t.Pos += n
	t.Drawn += n
	if t.FaultErr != nil && t.FaultStyle == 1 && t.Pos == limit {
		return n, t.FaultErr
	}
	return n, nil
}
