package gm

import (
	"bufio"
	"errors"
	"fmt"
	"reflect"

	"github.com/bluenviron/gomavlib/v3/pkg/dialect"
	"github.com/bluenviron/gomavlib/v3/pkg/frame"
	"github.com/bluenviron/gomavlib/v3/pkg/message"

	"verif/ref"
)

// Call is the observation of one frame.Reader.Read call.
type Call struct {
	From, To int // bytes of the stream consumed by this call
	Frame    frame.Frame
	Err      error
	ReadErr  bool // Err is a frame.ReadError (non fatal)
	Panic    string
}

// Decoded tells whether the call delivered a decoded (non raw) message.
func (c *Call) Decoded() bool {
	if c.Frame == nil {
		return false
	}
	_, raw := c.Frame.GetMessage().(*message.MessageRaw)
	return !raw
}

// Describe renders the result compactly (used for differential comparison).
func (c *Call) Describe() string {
	if c.Panic != "" {
		return "PANIC"
	}
	if c.Err != nil {
		if c.ReadErr {
			return "E(" + c.Err.Error() + ")"
		}
		return "T(" + c.Err.Error() + ")"
	}
	rf, raw := ToRef(c.Frame)
	if raw {
		return "F[" + rf.String() + fmt.Sprintf(" %x]", rf.Payload)
	}
	return "M[" + rf.String() + fmt.Sprintf(" %+v]", c.Frame.GetMessage())
}

// RunStream reads a stream to exhaustion (at most len+2 calls) and records every call.
//
// The reader is configured with a buffered reader the harness owns (BufByteReader, the
// documented way to share a buffer): consumption = bytes drawn from the transport minus bytes
// still buffered is then measured on the harness' own object, whatever the reader does
// internally. For the unsegmented, fault-free run of every stream the deprecated ByteReader
// configuration is run as well and must give the same sequence of results.
func RunStream(t *Transport, drw *dialect.ReadWriter, key *frame.V2Key) ([]Call, string) {
	calls, prob := runStream(t, drw, key, false)
	if prob == "" && len(t.Cuts) == 0 && t.FaultErr == nil {
		t2 := &Transport{Data: t.Data}
		calls2, prob2 := runStream(t2, drw, key, true)
		if prob2 != "" {
			return calls, "ByteReader configuration: " + prob2
		}
		if len(calls2) != len(calls) {
			return calls, fmt.Sprintf("ByteReader configuration makes %d calls, BufByteReader configuration %d on the same stream", len(calls2), len(calls))
		}
		for i := range calls {
			if a, b := calls[i].Describe(), calls2[i].Describe(); a != b {
				return calls, fmt.Sprintf("call %d: ByteReader configuration gives %s, BufByteReader configuration %s on the same stream", i, b, a)
			}
		}
	}
	return calls, prob
}

func runStream(t *Transport, drw *dialect.ReadWriter, key *frame.V2Key, legacy bool) ([]Call, string) {
	br := bufio.NewReaderSize(t, 512)
	r := &frame.Reader{BufByteReader: br, DialectRW: drw, InKey: key}
	if legacy {
		r = &frame.Reader{ByteReader: t, DialectRW: drw, InKey: key}
	}
	if err := r.Initialize(); err != nil {
		return nil, "initialize: " + err.Error()
	}
	buffered := func() int {
		if legacy {
			return 0 // consumption is not measured on this path
		}
		return br.Buffered()
	}
	var calls []Call
	limit := len(t.Data) + 2
	for i := 0; i < limit; i++ {
		before := t.Drawn - buffered()
		var c Call
		func() {
			defer func() {
				if e := recover(); e != nil {
					c.Panic = fmt.Sprint(e)
				}
			}()
			c.Frame, c.Err = r.Read()
		}()
		c.From = before
		c.To = t.Drawn - buffered()
		if c.Err != nil {
			var re frame.ReadError
			c.ReadErr = errors.As(c.Err, &re)
		}
		calls = append(calls, c)
		if c.Panic != "" {
			return calls, "panic: " + c.Panic
		}
		if c.Err != nil && !c.ReadErr {
			return calls, ""
		}
	}
	return calls, fmt.Sprintf("stream of %d bytes not exhausted after %d calls", len(t.Data), limit)
}

// TypeIndex maps struct types to corpus entries.
type TypeIndex map[reflect.Type]*MsgType

// NewTypeIndex builds the index.
func NewTypeIndex(c []*MsgType) TypeIndex {
	m := TypeIndex{}
	for _, x := range c {
		m[x.Type] = x
	}
	return m
}

// CheckDelivered verifies that a delivered frame corresponds to the bytes its call consumed:
// structurally (header fields), and for decoded messages that the carried checksum is the
// reference CRC for the CRC_EXTRA of the delivered type and the value is the reference
// decoding of the consumed payload. key != nil additionally requires a valid signature.
func CheckDelivered(c *Call, data []byte, idx TypeIndex, key []byte) string {
	if c.Frame == nil {
		return ""
	}
	consumed := data[c.From:c.To]
	it, ok := ParseExactly(consumed)
	if !ok {
		return fmt.Sprintf("delivered a frame but the %d consumed bytes % x are not exactly one frame", len(consumed), consumed)
	}
	rf := it
	got, raw := ToRef(c.Frame)
	_, isV2 := c.Frame.(*frame.V2Frame)
	if isV2 != rf.V2 {
		return "frame version differs from the consumed bytes"
	}
	if got.Seq != rf.Seq || got.Sys != rf.Sys || got.Comp != rf.Comp || got.ID != rf.ID || got.Incompat != rf.Incompat || got.Compat != rf.Compat {
		return fmt.Sprintf("header {%v} differs from consumed bytes {%v}", got, rf)
	}
	if rf.Signed() && (got.LinkID != rf.LinkID || got.Timestamp != rf.Timestamp || got.Sig != rf.Sig) {
		return "signature block differs from consumed bytes"
	}
	if v2, ok := c.Frame.(*frame.V2Frame); ok && (v2.Signature != nil) != rf.Signed() {
		return "signature presence differs from the consumed bytes"
	}
	if key != nil {
		if !rf.Signed() {
			return "delivered an unsigned or v1 frame although an incoming key is set"
		}
		if rf.Sign(key) != rf.Sig {
			return "delivered a frame whose signature does not verify under the incoming key"
		}
	}
	if raw {
		if string(got.Payload) != string(rf.Payload) || got.Checksum != rf.Checksum {
			return fmt.Sprintf("raw frame {%v %x} differs from consumed bytes {%v %x}", got, got.Payload, rf, rf.Payload)
		}
		return ""
	}
	mt := idx[reflect.TypeOf(c.Frame.GetMessage()).Elem()]
	if mt == nil {
		return "decoded message of a type outside the corpus"
	}
	if mt.ID != rf.ID {
		return "decoded message type does not match the id on the wire"
	}
	if want := rf.ComputeChecksum(mt.Def.CRCExtra()); want != rf.Checksum {
		return fmt.Sprintf("decoded message delivered although the carried checksum %04x differs from the reference %04x", rf.Checksum, want)
	}
	vals, ok := mt.Def.Decode(rf.Payload, rf.V2)
	if !ok {
		return "decoded message delivered although the payload length is invalid for v1"
	}
	if gv := ref.ValsFromStruct(mt.Def, reflect.ValueOf(c.Frame.GetMessage())); !ref.EqualVals(gv, vals) {
		return fmt.Sprintf("decoded value %v differs from the reference decoding %v of the consumed payload", gv, vals)
	}
	return ""
}

// ParseExactly parses b as exactly one structurally complete frame.
func ParseExactly(b []byte) (*ref.Frame, bool) {
	it, ok := ref.ParseOne(b)
	if !ok || it.Kind != ref.KindFrame || it.End != len(b) {
		return nil, false
	}
	return it.Frame, true
}
