package main

import (
	"fmt"
	"verif/gm"
)

func main() {
	c, err := gm.Corpus()
	if err != nil {
		panic(err)
	}
	fields, bad := 0, 0
	for _, m := range c {
		fields += len(m.Def.Fields)
		if m.Def.CRCExtra() != m.RW.CRCExtra() {
			bad++
			fmt.Println("crc mismatch", m.Name(), m.Def.CRCExtra(), m.RW.CRCExtra())
		}
	}
	fmt.Println(len(c), "types", fields, "fields", bad, "crc mismatches")
}
