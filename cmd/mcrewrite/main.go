// mcrewrite: typed source-to-source transformation of the gomavlib root package for engine B.
// Channel types and operations, select, go statements, range over maps/channels and the
// sync / context / time / net / crypto/rand / pion-udp imports are turned into calls of the
// vmc runtime (controlled scheduler). Output: rewritten copies + an overlay.json that also
// adds the virtual package pkg/vmc (sources in /verif/vmc). /repo is never modified.
//
// usage: mcrewrite -repo /repo -vmc /verif/vmc -out <dir> [-race]
package main

import (
	"bytes"
	"encoding/json"
	"flag"
	"fmt"
	"go/ast"
	"go/format"
	"go/parser"
	"go/token"
	"go/types"
	"os"
	"path/filepath"
	"sort"
	"strconv"
	"strings"

	"golang.org/x/tools/go/ast/astutil"
	"golang.org/x/tools/go/packages"
)

const modPath = "github.com/bluenviron/gomavlib/v3"
const vmcPath = modPath + "/pkg/vmc"

// importMap: packages whose behaviour the controlled scheduler owns. A qualified identifier
// pkg.Name is redirected to the shim when the shim exports Name; every other name keeps using
// the real package (types, constants and pure functions need no shim). Names listed in
// mustShim (or all names, "*") have behaviour the scheduler must own: using one the shim lacks
// is reported as unsupported instead of silently escaping the scheduler.
var importMap = map[string]string{
	"sync":                             "vsync",
	"sync/atomic":                      "vatomic",
	"context":                          "vctx",
	"time":                             "vtime",
	"net":                              "vnet",
	"crypto/rand":                      "vrand",
	"math/rand":                        "vmrand",
	"math/rand/v2":                     "vmrand2",
	"maps":                             "vmaps",
	"github.com/pion/transport/v2/udp": "vudp",
	"github.com/pion/transport/v3/udp": "vudp",
	"github.com/pion/transport/v4/udp": "vudp",
}

var mustShim = map[string][]string{
	"sync":        {"*"},
	"sync/atomic": {"*"},
	"context":     {"*"},
	"time":        {"Now", "Since", "Until", "After", "Sleep", "Tick", "NewTicker", "NewTimer", "AfterFunc", "Timer", "Ticker"},
	"net": {"Listen", "ListenPacket", "Dial", "DialTimeout", "Dialer", "ListenConfig", "ListenUDP", "ListenTCP", "ListenIP", "ListenUnix",
		"ListenUnixgram", "ListenMulticastUDP", "DialUDP", "DialTCP", "DialIP", "DialUnix", "Pipe", "FileConn", "FileListener", "FilePacketConn",
		"LookupHost", "LookupIP", "LookupAddr", "LookupPort", "LookupCNAME", "LookupSRV", "LookupMX", "LookupNS", "LookupTXT", "Resolver", "DefaultResolver"},
	"crypto/rand":                      {"Read", "Reader", "Int", "Prime", "Text"},
	"maps":                             {"Keys", "Values", "All"},
	"math/rand":                        {"Int", "Intn", "Int31", "Int31n", "Int63", "Int63n", "Uint32", "Uint64", "Float32", "Float64", "ExpFloat64", "NormFloat64", "Perm", "Shuffle", "Read", "Seed"},
	"math/rand/v2":                     {"Int", "IntN", "Int32", "Int32N", "Int64", "Int64N", "Uint", "UintN", "Uint32", "Uint32N", "Uint64", "Uint64N", "Float32", "Float64", "ExpFloat64", "NormFloat64", "Perm", "Shuffle", "N"},
	"github.com/pion/transport/v2/udp": {"Listen", "ListenConfig"},
	"github.com/pion/transport/v3/udp": {"Listen", "ListenConfig"},
	"github.com/pion/transport/v4/udp": {"Listen", "ListenConfig"},
}

// shimExports[shim dir] = exported top-level names (filled from the shim sources)
var shimExports = map[string]map[string]bool{}

func loadShimExports(vmcDir string) {
	for _, dir := range importMap {
		names := map[string]bool{}
		fset := token.NewFileSet()
		pkgs, err := parser.ParseDir(fset, filepath.Join(vmcDir, dir), nil, 0)
		if err != nil {
			die("shim %s: %v", dir, err)
		}
		for _, p := range pkgs {
			for _, f := range p.Files {
				for _, d := range f.Decls {
					switch x := d.(type) {
					case *ast.FuncDecl:
						if x.Recv == nil && x.Name.IsExported() {
							names[x.Name.Name] = true
						}
					case *ast.GenDecl:
						for _, sp := range x.Specs {
							switch y := sp.(type) {
							case *ast.TypeSpec:
								if y.Name.IsExported() {
									names[y.Name.Name] = true
								}
							case *ast.ValueSpec:
								for _, n := range y.Names {
									if n.IsExported() {
										names[n.Name] = true
									}
								}
							}
						}
					}
				}
			}
		}
		shimExports[dir] = names
	}
}

func die(format string, a ...any) {
	fmt.Fprintf(os.Stderr, "mcrewrite: "+format+"\n", a...)
	os.Exit(2)
}

func main() {
	repo := flag.String("repo", "/repo", "repository root")
	vmcDir := flag.String("vmc", "/verif/vmc", "vmc runtime sources")
	out := flag.String("out", "", "output directory")
	race := flag.Bool("race", false, "instrument memory accesses")
	flag.Parse()
	if *out == "" {
		die("-out required")
	}
	os.MkdirAll(*out, 0o755)
	cfg := &packages.Config{
		Mode:       packages.NeedName | packages.NeedFiles | packages.NeedSyntax | packages.NeedTypes | packages.NeedTypesInfo | packages.NeedCompiledGoFiles,
		Dir:        *repo,
		BuildFlags: []string{"-tags=verif"},
		Env:        append(os.Environ(), "GOFLAGS=-mod=mod", "GOPROXY=off", "GOSUMDB=off", "GOTOOLCHAIN=local"),
	}
	loadShimExports(*vmcDir)
	cfg.Mode |= packages.NeedImports | packages.NeedDeps
	// roots: the node package and every other package under pkg/ (the harnesses use some of them
	// directly - frame, streamwriter, timednetconn - whether or not the node still does), except
	// the generated dialects
	patterns := []string{"."}
	if ents, err := os.ReadDir(filepath.Join(*repo, "pkg")); err == nil {
		for _, e := range ents {
			if e.IsDir() && e.Name() != "dialects" && e.Name() != "vmc" {
				if m, _ := filepath.Glob(filepath.Join(*repo, "pkg", e.Name(), "*.go")); len(m) > 0 {
					patterns = append(patterns, "./pkg/"+e.Name())
				}
			}
		}
	}
	roots, err := packages.Load(cfg, patterns...)
	if err != nil {
		die("load: %v", err)
	}
	// every package of the module the root package depends on is rewritten (a goroutine, channel,
	// lock or clock read that moves into another package of the module stays under the
	// scheduler); the generated dialect packages are data only and stay as they are
	var pkgs []*packages.Package
	seen := map[string]bool{}
	var visit func(p *packages.Package)
	visit = func(p *packages.Package) {
		if seen[p.PkgPath] {
			return
		}
		seen[p.PkgPath] = true
		// (the concurrency helpers of golang.org/x/sync - errgroup, semaphore, singleflight - are
		// plain Go on top of sync / context and are rewritten like the module's own packages)
		if p.PkgPath != modPath && !strings.HasPrefix(p.PkgPath, modPath+"/") && !strings.HasPrefix(p.PkgPath, "golang.org/x/sync/") {
			return
		}
		if strings.HasPrefix(p.PkgPath, modPath+"/pkg/dialects") || strings.HasPrefix(p.PkgPath, vmcPath) {
			return
		}
		pkgs = append(pkgs, p)
		var keys []string
		for k := range p.Imports {
			keys = append(keys, k)
		}
		sort.Strings(keys)
		for _, k := range keys {
			visit(p.Imports[k])
		}
	}
	for _, p := range roots {
		visit(p)
	}
	for _, p := range pkgs {
		if !untracked[p.PkgPath] {
			tracked[p.PkgPath] = true
		}
	}
	allPkgs = pkgs
	overlay := map[string]string{}
	for _, p := range pkgs {
		if len(p.Errors) > 0 {
			die("package %s: %v", p.PkgPath, p.Errors)
		}
		for i, f := range p.Syntax {
			name := p.CompiledGoFiles[i]
			rw := &rewriter{pkg: p, file: f, full: true, race: *race && tracked[p.PkgPath]}
			changed := rw.run()
			if !changed {
				continue
			}
			var buf bytes.Buffer
			top, embeds := directives(f)
			f.Comments = nil
			if err := format.Node(&buf, token.NewFileSet(), f); err != nil {
				die("print %s: %v", name, err)
			}
			if len(top) > 0 || len(embeds) > 0 {
				buf = *bytes.NewBuffer(reinsertDirectives(buf.Bytes(), top, embeds))
			}
			rel, _ := filepath.Rel(*repo, name)
			dst := filepath.Join(*out, strings.ReplaceAll(rel, "/", "__"))
			if err := os.WriteFile(dst, buf.Bytes(), 0o644); err != nil {
				die("%v", err)
			}
			overlay[name] = dst
		}
	}
	// virtual package pkg/vmc
	filepath.Walk(*vmcDir, func(path string, info os.FileInfo, err error) error {
		if err != nil || info.IsDir() || !strings.HasSuffix(path, ".go") || strings.HasSuffix(path, "_test.go") {
			return nil
		}
		rel, _ := filepath.Rel(*vmcDir, path)
		overlay[filepath.Join(*repo, "pkg", "vmc", rel)] = path
		return nil
	})
	b, _ := json.MarshalIndent(map[string]any{"Replace": overlay}, "", " ")
	if err := os.WriteFile(filepath.Join(*out, "overlay.json"), b, 0o644); err != nil {
		die("%v", err)
	}
}

// directives collects what must survive although comments are dropped when a rewritten file is
// printed: the build constraints at the top of the file and //go:embed lines (per variable).
func directives(f *ast.File) (top []string, embeds map[string][]string) {
	embeds = map[string][]string{}
	for _, cg := range f.Comments {
		if cg.Pos() < f.Package {
			for _, c := range cg.List {
				if strings.HasPrefix(c.Text, "//go:build") || strings.HasPrefix(c.Text, "// +build") {
					top = append(top, c.Text)
				}
			}
		}
	}
	for _, d := range f.Decls {
		gd, ok := d.(*ast.GenDecl)
		if !ok || gd.Tok != token.VAR {
			continue
		}
		grab := func(cg *ast.CommentGroup, names []*ast.Ident) {
			if cg == nil || len(names) == 0 {
				return
			}
			for _, c := range cg.List {
				if strings.HasPrefix(c.Text, "//go:embed") {
					embeds[names[0].Name] = append(embeds[names[0].Name], c.Text)
				}
			}
		}
		for _, sp := range gd.Specs {
			vs := sp.(*ast.ValueSpec)
			grab(vs.Doc, vs.Names)
			if len(gd.Specs) == 1 {
				grab(gd.Doc, vs.Names)
			}
		}
	}
	return top, embeds
}

func reinsertDirectives(src []byte, top []string, embeds map[string][]string) []byte {
	var out []string
	if len(top) > 0 {
		out = append(out, top...)
		out = append(out, "")
	}
	for _, l := range strings.Split(string(src), "\n") {
		t := strings.TrimSpace(l)
		for name, ds := range embeds {
			if strings.HasPrefix(t, "var "+name+" ") || strings.HasPrefix(t, name+" ") && strings.HasPrefix(l, "\t") {
				indent := l[:len(l)-len(strings.TrimLeft(l, "\t"))]
				for _, d := range ds {
					out = append(out, indent+d)
				}
				delete(embeds, name)
			}
		}
		out = append(out, l)
	}
	return []byte(strings.Join(out, "\n"))
}

type rewriter struct {
	pkg     *packages.Package
	file    *ast.File
	full    bool
	race    bool
	usesVmc bool
	changed bool
	nsel    int

	recvCalls  map[*ast.CallExpr]ast.Expr    // generated c.Recv() -> c
	sendCalls  map[*ast.CallExpr][2]ast.Expr // generated c.Send(v) -> c, v
	argType    map[*ast.CallExpr]types.Type  // type of first argument of close/len/cap (original)
	rangeType  map[*ast.RangeStmt]types.Type
	regLits    map[*ast.UnaryExpr]bool
	extraDecls []ast.Decl

	// race mode
	ptrRecv      bool
	inReg        map[*ast.CallExpr]bool
	selectBlocks map[*ast.BlockStmt]bool
	accW         map[ast.Expr]bool // expression is written (assignment target, inc/dec)
	skipAcc      map[ast.Expr]bool // address taken / struct-valued inner selector: not an access
}

// race mode: memory accesses are instrumented in every rewritten package (the codec packages
// too: a message.ReadWriter is shared by all channels of a node)
var tracked = map[string]bool{}
var untracked = map[string]bool{}
var allPkgs []*packages.Package

// pointerReceivers (race mode): value-receiver methods of struct types that also have
// pointer-receiver methods (V1Frame, V2Frame getters) get pointer receivers, so that the field
// reads they perform happen on the shared object and are seen by the tracker (with a value
// receiver the whole struct is copied implicitly at the call, which no source construct shows).
// The methods do not modify their receiver, so the meaning is unchanged; the types are used
// through pointers everywhere (only the pointer types implement frame.Frame).
func (r *rewriter) pointerReceivers() {
	hasPtr := map[string]bool{}
	for _, f := range r.pkg.Syntax {
		for _, d := range f.Decls {
			fd, ok := d.(*ast.FuncDecl)
			if !ok || fd.Recv == nil || len(fd.Recv.List) != 1 {
				continue
			}
			if st, ok := fd.Recv.List[0].Type.(*ast.StarExpr); ok {
				if id, ok := st.X.(*ast.Ident); ok {
					hasPtr[id.Name] = true
				}
			}
		}
	}
	for _, d := range r.file.Decls {
		fd, ok := d.(*ast.FuncDecl)
		if !ok || fd.Recv == nil || len(fd.Recv.List) != 1 {
			continue
		}
		id, ok := fd.Recv.List[0].Type.(*ast.Ident)
		if !ok || !hasPtr[id.Name] {
			continue
		}
		obj := r.pkg.Types.Scope().Lookup(id.Name)
		if obj == nil {
			continue
		}
		if _, isStruct := obj.Type().Underlying().(*types.Struct); !isStruct {
			continue
		}
		if valueImplementsSomething(obj.Type()) || hasConventionalValueMethod(obj.Type()) {
			// the value type satisfies an interface of the module through its value-receiver
			// methods (endpoint configurations): pointer receivers would break that
			continue
		}
		fd.Recv.List[0].Type = &ast.StarExpr{X: id}
		r.changed = true
		r.ptrRecv = true
	}
}

// valueImplementsSomething: T (not *T) implements a non-empty interface declared in one of the
// rewritten packages.
func valueImplementsSomething(t types.Type) bool {
	for _, p := range allPkgs {
		sc := p.Types.Scope()
		for _, name := range sc.Names() {
			tn, ok := sc.Lookup(name).(*types.TypeName)
			if !ok {
				continue
			}
			it, ok := tn.Type().Underlying().(*types.Interface)
			if !ok || it.NumMethods() == 0 {
				continue
			}
			if types.Implements(t, it) {
				return true
			}
		}
	}
	return false
}

// under is Underlying() that sees through type parameters: a type parameter whose constraint
// has a single core type (~map[K]V, ~[]E, chan T ...) behaves as that type in range, index,
// send and receive; for every other type parameter the constraint interface is returned.
func under(t types.Type) types.Type {
	if t == nil {
		return nil
	}
	tp, ok := types.Unalias(t).(*types.TypeParam)
	if !ok {
		return t.Underlying()
	}
	iface, ok := tp.Constraint().Underlying().(*types.Interface)
	if !ok {
		return t.Underlying()
	}
	var core types.Type
	for i := 0; i < iface.NumEmbeddeds(); i++ {
		switch e := iface.EmbeddedType(i).(type) {
		case *types.Union:
			for j := 0; j < e.Len(); j++ {
				u := e.Term(j).Type().Underlying()
				if core != nil && !types.Identical(core, u) {
					return t.Underlying()
				}
				core = u
			}
		default:
			u := e.Underlying()
			if _, isIface := u.(*types.Interface); isIface {
				continue
			}
			if core != nil && !types.Identical(core, u) {
				return t.Underlying()
			}
			core = u
		}
	}
	if core == nil {
		return t.Underlying()
	}
	return core
}

// isNamedChan: a defined type whose underlying type is a channel.
func isNamedChan(t types.Type) bool {
	if t == nil {
		return false
	}
	n, ok := types.Unalias(t).(*types.Named)
	if !ok {
		return false
	}
	_, isChan := under(n).(*types.Chan)
	return isChan
}

// hasConventionalValueMethod: the value type has a method whose name belongs to a widely used
// interface of the standard library (error, fmt.Stringer, the marshalers, sort.Interface, io):
// the value may be used through that interface somewhere, so its receivers are left alone.
func hasConventionalValueMethod(t types.Type) bool {
	conv := map[string]bool{"Error": true, "String": true, "GoString": true, "Format": true, "MarshalJSON": true, "MarshalText": true,
		"MarshalBinary": true, "MarshalXML": true, "Len": true, "Less": true, "Swap": true, "Read": true, "Write": true, "Close": true, "Is": true, "Unwrap": true}
	ms := types.NewMethodSet(t)
	for i := 0; i < ms.Len(); i++ {
		if conv[ms.At(i).Obj().Name()] {
			return true
		}
	}
	return false
}

func unparen(e ast.Expr) ast.Expr {
	for {
		p, ok := e.(*ast.ParenExpr)
		if !ok {
			return e
		}
		e = p.X
	}
}

func (r *rewriter) site(n ast.Node) ast.Expr {
	p := n.Pos()
	switch x := n.(type) {
	case *ast.SelectorExpr:
		p = x.Sel.Pos()
	case *ast.IndexExpr:
		p = x.Lbrack
	case *ast.CallExpr:
		p = x.Lparen
	case *ast.RangeStmt:
		p = x.For
	}
	pos := r.pkg.Fset.Position(p)
	return &ast.BasicLit{Kind: token.STRING, Value: strconv.Quote(fmt.Sprintf("%s:%d", filepath.Base(pos.Filename), pos.Line))}
}

// isTrackedField: selector is a field of a struct declared in a tracked package, addressable.
func (r *rewriter) isTrackedField(sel *ast.SelectorExpr) bool {
	info := r.pkg.TypesInfo
	s, ok := info.Selections[sel]
	if !ok || s.Kind() != types.FieldVal {
		return false
	}
	if s.Obj().Pkg() == nil || !tracked[s.Obj().Pkg().Path()] {
		return false
	}
	tv, ok := info.Types[sel]
	return ok && tv.Addressable()
}

func (r *rewriter) isPkgVar(id *ast.Ident) bool {
	v, ok := r.pkg.TypesInfo.Uses[id].(*types.Var)
	if !ok || v.IsField() || v.Pkg() == nil || !tracked[v.Pkg().Path()] {
		return false
	}
	return v.Parent() == v.Pkg().Scope()
}

func isAggregate(t types.Type) bool {
	if t == nil {
		return false
	}
	switch t.Underlying().(type) {
	case *types.Struct, *types.Array:
		return true
	}
	return false
}

// racePre classifies accesses before children are rewritten.
func (r *rewriter) racePre(c *astutil.Cursor) {
	info := r.pkg.TypesInfo
	switch n := c.Node().(type) {
	case *ast.AssignStmt:
		if n.Tok != token.DEFINE {
			for _, l := range n.Lhs {
				r.accW[unparen(l)] = true
			}
		}
	case *ast.IncDecStmt:
		r.accW[unparen(n.X)] = true
	case *ast.UnaryExpr:
		if n.Op == token.AND {
			r.skipAcc[unparen(n.X)] = true
		}
	case *ast.SelectorExpr:
		// inner selector of struct / array type: the outer selector names the accessed memory
		if inner, ok := unparen(n.X).(*ast.SelectorExpr); ok && isAggregate(info.TypeOf(inner)) {
			r.skipAcc[inner] = true
		}
		if inner, ok := unparen(n.X).(*ast.Ident); ok && isAggregate(info.TypeOf(inner)) {
			r.skipAcc[inner] = true
		}
		if inner, ok := unparen(n.X).(*ast.IndexExpr); ok && isAggregate(info.TypeOf(inner)) {
			r.skipAcc[inner] = true // s[i].f: the selector names the accessed memory
		}
	case *ast.SliceExpr:
		if inner, ok := unparen(n.X).(*ast.IndexExpr); ok {
			r.skipAcc[inner] = true // s[i][a:b]: no element is accessed
		}
		if inner, ok := unparen(n.X).(*ast.SelectorExpr); ok && isAggregate(info.TypeOf(inner)) {
			r.skipAcc[inner] = true // x.arr[a:b]
		}
	case *ast.IndexExpr:
		if inner, ok := unparen(n.X).(*ast.SelectorExpr); ok && isAggregate(info.TypeOf(inner)) {
			r.skipAcc[inner] = true
		}
		if inner, ok := unparen(n.X).(*ast.IndexExpr); ok && isAggregate(info.TypeOf(inner)) {
			r.skipAcc[inner] = true // a[i][j]
		}
	case *ast.CallExpr:
		// len(a) / cap(a) of an array (or pointer to array) are constants: no access
		if id, ok := n.Fun.(*ast.Ident); ok && (id.Name == "len" || id.Name == "cap") && len(n.Args) == 1 {
			if _, isBuiltin := info.Uses[id].(*types.Builtin); isBuiltin && isArrayish(info.TypeOf(n.Args[0])) {
				r.skipAcc[unparen(n.Args[0])] = true
			}
		}
	case *ast.RangeStmt:
		// for i := range arr (no value variable): the array is not evaluated
		if n.Value == nil && isArrayish(info.TypeOf(n.X)) {
			r.skipAcc[unparen(n.X)] = true
		}
		if n.Tok == token.ASSIGN {
			if n.Key != nil {
				r.accW[unparen(n.Key)] = true
			}
			if n.Value != nil {
				r.accW[unparen(n.Value)] = true
			}
		}
	}
}

// isElemContainer: indexing a value of this type yields an element of a slice or array.
func isElemContainer(t types.Type) bool {
	switch u := t.Underlying().(type) {
	case *types.Slice, *types.Array:
		return true
	case *types.Pointer:
		_, ok := u.Elem().Underlying().(*types.Array)
		return ok
	}
	return false
}

func isArrayish(t types.Type) bool {
	if t == nil {
		return false
	}
	switch u := t.Underlying().(type) {
	case *types.Array:
		return true
	case *types.Pointer:
		_, ok := u.Elem().Underlying().(*types.Array)
		return ok
	}
	return false
}

func isByteSlice(t types.Type) bool {
	if t == nil {
		return false
	}
	sl, ok := under(t).(*types.Slice)
	if !ok {
		return false
	}
	b, ok := sl.Elem().Underlying().(*types.Basic)
	return ok && b.Kind() == types.Uint8
}

// classifyRaceCall recognises the calls that read or write slice elements without an index
// expression: the builtins copy / clear / append, encoding/binary's fixed-size accessors, and
// methods with the io.Reader / io.Writer signature.
func (r *rewriter) classifyRaceCall(n *ast.CallExpr, out map[*ast.CallExpr]string) {
	info := r.pkg.TypesInfo
	if id, ok := n.Fun.(*ast.Ident); ok {
		if _, isBuiltin := info.Uses[id].(*types.Builtin); isBuiltin {
			switch id.Name {
			case "copy":
				if len(n.Args) == 2 {
					if b, ok := info.TypeOf(n.Args[1]).Underlying().(*types.Basic); ok && b.Info()&types.IsString != 0 {
						out[n] = "copystr"
					} else {
						out[n] = "copy"
					}
				}
			case "clear":
				if len(n.Args) == 1 {
					if _, ok := under(info.TypeOf(n.Args[0])).(*types.Slice); ok {
						out[n] = "clear"
					}
				}
			case "append":
				if len(n.Args) >= 2 {
					if _, ok := under(info.TypeOf(n.Args[0])).(*types.Slice); !ok {
						return
					}
					if n.Ellipsis.IsValid() {
						if b, ok := info.TypeOf(n.Args[1]).Underlying().(*types.Basic); ok && b.Info()&types.IsString != 0 {
							out[n] = "appendstr"
						} else {
							out[n] = "appendslice"
						}
					} else {
						out[n] = "append"
					}
				}
			}
		}
		return
	}
	sel, ok := n.Fun.(*ast.SelectorExpr)
	if !ok {
		return
	}
	fn, ok := info.Uses[sel.Sel].(*types.Func)
	if !ok {
		return
	}
	if fn.Pkg() != nil && fn.Pkg().Path() == "encoding/binary" && len(n.Args) >= 1 && isByteSlice(info.TypeOf(n.Args[0])) {
		switch fn.Name() {
		case "PutUint16":
			out[n] = "w2"
		case "PutUint32":
			out[n] = "w4"
		case "PutUint64":
			out[n] = "w8"
		case "Uint16":
			out[n] = "r2"
		case "Uint32":
			out[n] = "r4"
		case "Uint64":
			out[n] = "r8"
		}
		return
	}
	// x.Read(p) / x.Write(p) with the io signatures: Read may write all of p, Write reads all of p
	if sig, ok := fn.Type().(*types.Signature); ok && sig.Recv() != nil && sig.Params().Len() == 1 && sig.Results().Len() == 2 && len(n.Args) == 1 && isByteSlice(sig.Params().At(0).Type()) && !n.Ellipsis.IsValid() {
		switch fn.Name() {
		case "Read":
			out[n] = "ioread"
		case "Write":
			out[n] = "iowrite"
		}
	}
}

func (r *rewriter) applyRaceCall(c *astutil.Cursor, n *ast.CallExpr, kind string) {
	site := r.site(n)
	r.changed = true
	switch kind {
	case "copy":
		c.Replace(call(r.vmc("Copy"), n.Args[0], n.Args[1], site))
	case "copystr":
		c.Replace(call(r.vmc("CopyStr"), n.Args[0], n.Args[1], site))
	case "clear":
		c.Replace(call(r.vmc("Clear"), n.Args[0], site))
	case "append", "appendslice", "appendstr":
		// vmc.Appended(site, s, append(s, ...)): the slice operand is evaluated twice, so only
		// operands without calls / receives are instrumented (the builtin itself is kept: its
		// typing rules - untyped constants, interface elements, string spread - are not those of
		// a generic function)
		if simpleOperand(n.Args[0]) {
			c.Replace(call(r.vmc("Appended"), site, n.Args[0], n))
		}
	case "w2", "w4", "w8", "r2", "r4", "r8":
		fn := "WSn"
		if kind[0] == 'r' {
			fn = "RSn"
		}
		n.Args[0] = call(r.vmc(fn), n.Args[0], &ast.BasicLit{Kind: token.INT, Value: kind[1:]}, site)
	case "ioread":
		n.Args[0] = call(r.vmc("WS"), n.Args[0], site)
	case "iowrite":
		n.Args[0] = call(r.vmc("RS"), n.Args[0], site)
	}
}

// simpleOperand: identifiers, selectors, index and slice expressions, dereferences, parentheses
// of such, with constant or simple indices: evaluating it twice has no effect.
func simpleOperand(e ast.Expr) bool {
	switch x := e.(type) {
	case *ast.Ident, *ast.BasicLit:
		return true
	case *ast.SelectorExpr:
		return simpleOperand(x.X)
	case *ast.ParenExpr:
		return simpleOperand(x.X)
	case *ast.StarExpr:
		return simpleOperand(x.X)
	case *ast.IndexExpr:
		return simpleOperand(x.X) && simpleOperand(x.Index)
	case *ast.SliceExpr:
		for _, p := range []ast.Expr{x.Low, x.High, x.Max} {
			if p != nil && !simpleOperand(p) {
				return false
			}
		}
		return simpleOperand(x.X)
	case *ast.BinaryExpr:
		return simpleOperand(x.X) && simpleOperand(x.Y)
	case *ast.UnaryExpr:
		return x.Op != token.ARROW && simpleOperand(x.X)
	case *ast.CallExpr:
		// len(x) / cap(x) of a simple operand
		if id, ok := x.Fun.(*ast.Ident); ok && (id.Name == "len" || id.Name == "cap") && len(x.Args) == 1 {
			return simpleOperand(x.Args[0])
		}
		// the access recorders the rewriter itself has already put around a field / variable
		for _, fn := range []string{"R", "W", "MR", "MW"} {
			if isVmcSel(x.Fun, fn) && len(x.Args) >= 1 {
				return simpleOperand(x.Args[0])
			}
		}
	}
	return false
}

// raceWrap wraps an addressable expression: (*vmc.R(&e, site)) / (*vmc.W(&e, site))
func (r *rewriter) raceWrap(e ast.Expr, write bool, at ast.Node) ast.Expr {
	fn := "R"
	if write {
		fn = "W"
	}
	r.changed = true
	return &ast.ParenExpr{X: &ast.StarExpr{X: call(r.vmc(fn), &ast.UnaryExpr{Op: token.AND, X: e}, r.site(at))}}
}

func (r *rewriter) vmc(name string) ast.Expr {
	r.usesVmc = true
	return &ast.SelectorExpr{X: ast.NewIdent("vmc"), Sel: ast.NewIdent(name)}
}

func call(fun ast.Expr, args ...ast.Expr) *ast.CallExpr { return &ast.CallExpr{Fun: fun, Args: args} }
func method(x ast.Expr, name string, args ...ast.Expr) *ast.CallExpr {
	return call(&ast.SelectorExpr{X: x, Sel: ast.NewIdent(name)}, args...)
}

func (r *rewriter) run() bool {
	r.rewriteImports()
	info := r.pkg.TypesInfo
	r.accW = map[ast.Expr]bool{}
	r.skipAcc = map[ast.Expr]bool{}
	r.inReg = map[*ast.CallExpr]bool{}
	r.recvCalls = map[*ast.CallExpr]ast.Expr{}
	r.sendCalls = map[*ast.CallExpr][2]ast.Expr{}
	r.argType = map[*ast.CallExpr]types.Type{}
	r.rangeType = map[*ast.RangeStmt]types.Type{}
	r.regLits = map[*ast.UnaryExpr]bool{}

	if r.race {
		r.pointerReceivers()
	}
	namedChanSpec := map[*ast.TypeSpec]bool{}
	nilCmpSide := map[*ast.Expr]bool{}
	namedMake := map[*ast.CallExpr]string{}
	regKey := map[*ast.IndexExpr]bool{}
	mapLits := map[*ast.CompositeLit]bool{}
	markInsert := func(e ast.Expr) {
		ix, ok := unparen(e).(*ast.IndexExpr)
		if !ok {
			return
		}
		t := info.TypeOf(ix.X)
		if t == nil {
			return
		}
		mt, ok := under(t).(*types.Map)
		if !ok {
			return
		}
		if _, basic := mt.Key().Underlying().(*types.Basic); basic {
			return
		}
		regKey[ix] = true
	}
	raceField := map[*ast.SelectorExpr]bool{}
	raceVar := map[*ast.Ident]bool{}
	raceMap := map[*ast.IndexExpr]types.Type{}
	raceElem := map[*ast.IndexExpr]bool{}
	raceCall := map[*ast.CallExpr]string{}
	pre := func(c *astutil.Cursor) bool {
		if r.race {
			r.racePre(c)
			switch n := c.Node().(type) {
			case *ast.SelectorExpr:
				if r.isTrackedField(n) {
					raceField[n] = true
				}
			case *ast.Ident:
				if r.isPkgVar(n) {
					raceVar[n] = true
				}
			case *ast.IndexExpr:
				if t := info.TypeOf(n.X); t != nil {
					if _, ok := under(t).(*types.Map); ok {
						raceMap[n] = t
					}
					if isElemContainer(t) {
						if tv, ok := info.Types[n]; ok && tv.Addressable() {
							raceElem[n] = true
						}
					}
				}
			case *ast.CallExpr:
				r.classifyRaceCall(n, raceCall)
			}
		}
		switch n := c.Node().(type) {
		case *ast.AssignStmt:
			for _, l := range n.Lhs {
				markInsert(l)
			}
		case *ast.IncDecStmt:
			markInsert(n.X)
		case *ast.TypeSpec:
			if _, isChan := n.Type.(*ast.ChanType); isChan && !n.Assign.IsValid() {
				namedChanSpec[n] = true
			}
		case *ast.BinaryExpr:
			if n.Op == token.EQL || n.Op == token.NEQ {
				for _, side := range []*ast.Expr{&n.X, &n.Y} {
					if isNamedChan(info.TypeOf(*side)) {
						nilCmpSide[side] = true
					}
				}
			}
		}
		switch n := c.Node().(type) {
		case *ast.CallExpr:
			if id, ok := n.Fun.(*ast.Ident); ok && (id.Name == "close" || id.Name == "len" || id.Name == "cap" || id.Name == "delete") && len(n.Args) >= 1 {
				if _, isBuiltin := info.Uses[id].(*types.Builtin); isBuiltin {
					r.argType[n] = info.TypeOf(n.Args[0])
				}
			}
			if id, ok := n.Fun.(*ast.Ident); ok && id.Name == "make" && len(n.Args) >= 1 {
				if _, isBuiltin := info.Uses[id].(*types.Builtin); isBuiltin && isNamedChan(info.TypeOf(n.Args[0])) {
					tid, ok := n.Args[0].(*ast.Ident)
					if !ok {
						die("%s: unsupported: make of a defined channel type of another package", r.pkg.Fset.Position(n.Pos()))
					}
					namedMake[n] = tid.Name
				}
			}
		case *ast.RangeStmt:
			r.rangeType[n] = info.TypeOf(n.X)
		case *ast.CompositeLit:
			// map literal with non-basic keys: the keys enter a map
			if t := info.TypeOf(n); t != nil {
				if mt, ok := under(t).(*types.Map); ok {
					if _, basic := mt.Key().Underlying().(*types.Basic); !basic {
						mapLits[n] = true
					}
				}
			}
		}
		return true
	}
	post := func(c *astutil.Cursor) bool {
		if r.race {
			switch n := c.Node().(type) {
			case *ast.SelectorExpr:
				if raceField[n] && !r.skipAcc[n] {
					// the selector that names a method / qualified identifier is never wrapped (not a field)
					c.Replace(r.raceWrap(n, r.accW[n], n))
					return true
				}
			case *ast.Ident:
				if raceVar[n] && !r.skipAcc[n] {
					if _, isSelName := c.Parent().(*ast.SelectorExpr); isSelName && c.Name() == "Sel" {
						break
					}
					if kv, ok := c.Parent().(*ast.KeyValueExpr); ok && kv.Key == n {
						break
					}
					c.Replace(r.raceWrap(n, r.accW[n], n))
					return true
				}
			case *ast.IndexExpr:
				if _, ok := raceMap[n]; ok {
					fn := "MR"
					if r.accW[n] {
						fn = "MW"
					}
					n.X = call(r.vmc(fn), n.X, r.site(n))
					r.changed = true
				}
				if raceElem[n] && !r.skipAcc[n] {
					c.Replace(r.raceWrap(n, r.accW[n], n))
					return true
				}
			case *ast.CallExpr:
				if kind, ok := raceCall[n]; ok {
					r.applyRaceCall(c, n, kind)
					return true
				}
				if id, ok := n.Fun.(*ast.Ident); ok && len(n.Args) >= 1 {
					if _, isBuiltin := info.Uses[id].(*types.Builtin); isBuiltin {
						if t := r.argType[n]; t != nil {
							if _, isMap := under(t).(*types.Map); isMap {
								switch id.Name {
								case "delete":
									n.Args[0] = call(r.vmc("MW"), n.Args[0], r.site(n))
									r.changed = true
								case "len":
									n.Args[0] = call(r.vmc("MR"), n.Args[0], r.site(n))
									r.changed = true
								}
							}
						}
					}
				}
			}
		}
		if cl, ok := c.Node().(*ast.CompositeLit); ok && mapLits[cl] {
			for _, el := range cl.Elts {
				if kv, ok := el.(*ast.KeyValueExpr); ok {
					if _, isLit := kv.Key.(*ast.CompositeLit); isLit {
						continue // elided key type: cannot be wrapped, and holds no pre-existing pointer identity worth an id before use
					}
					kv.Key = call(r.vmc("RegKey"), kv.Key)
					r.changed = true
				}
			}
		}
		if ix, ok := c.Node().(*ast.IndexExpr); ok && regKey[ix] {
			// every key that enters a map gets its deterministic order id (see vmc.RegKey)
			ix.Index = call(r.vmc("RegKey"), ix.Index)
			r.changed = true
		}
		if ts, ok := c.Node().(*ast.TypeSpec); ok && namedChanSpec[ts] {
			// a defined channel type (it may have methods): a struct embedding the controlled
			// channel, whose operations are promoted; vmcMake_<T> stands for make(T, n)
			ts.Type = &ast.StructType{Fields: &ast.FieldList{List: []*ast.Field{{Type: ts.Type}}}}
			star := ts.Type.(*ast.StructType).Fields.List[0].Type.(*ast.StarExpr)
			elem := star.X.(*ast.IndexExpr).Index
			mk := &ast.FuncDecl{
				Name: ast.NewIdent("vmcMake_" + ts.Name.Name),
				Type: &ast.FuncType{Params: &ast.FieldList{List: []*ast.Field{{Names: []*ast.Ident{ast.NewIdent("n")}, Type: ast.NewIdent("int")}}},
					Results: &ast.FieldList{List: []*ast.Field{{Type: ast.NewIdent(ts.Name.Name)}}}},
				Body: &ast.BlockStmt{List: []ast.Stmt{&ast.ReturnStmt{Results: []ast.Expr{&ast.CompositeLit{Type: ast.NewIdent(ts.Name.Name),
					Elts: []ast.Expr{call(&ast.IndexExpr{X: r.vmc("NewChan"), Index: elem}, ast.NewIdent("n"))}}}}}},
			}
			r.extraDecls = append(r.extraDecls, mk)
			r.changed = true
		}
		if be, ok := c.Node().(*ast.BinaryExpr); ok {
			for _, side := range []*ast.Expr{&be.X, &be.Y} {
				if nilCmpSide[side] {
					*side = &ast.SelectorExpr{X: *side, Sel: ast.NewIdent("Chan")}
					r.changed = true
				}
			}
		}
		if ce, ok := c.Node().(*ast.CallExpr); ok {
			if name, ok := namedMake[ce]; ok {
				var size ast.Expr = &ast.BasicLit{Kind: token.INT, Value: "0"}
				if len(ce.Args) == 2 {
					size = ce.Args[1]
				}
				c.Replace(call(ast.NewIdent("vmcMake_"+name), size))
				r.changed = true
				return true
			}
		}
		switch n := c.Node().(type) {
		case *ast.ChanType:
			if !r.full {
				break
			}
			r.changed = true
			c.Replace(&ast.StarExpr{X: &ast.IndexExpr{X: r.vmc("Chan"), Index: n.Value}})
		case *ast.CallExpr:
			if id, ok := n.Fun.(*ast.Ident); ok {
				switch id.Name {
				case "make":
					if len(n.Args) >= 1 {
						if st, ok := n.Args[0].(*ast.StarExpr); ok {
							if ix, ok := st.X.(*ast.IndexExpr); ok && isVmcSel(ix.X, "Chan") {
								var size ast.Expr = &ast.BasicLit{Kind: token.INT, Value: "0"}
								if len(n.Args) == 2 {
									size = n.Args[1]
								}
								c.Replace(call(&ast.IndexExpr{X: r.vmc("NewChan"), Index: ix.Index}, size))
							}
						}
					}
				case "close", "len", "cap":
					if t, ok := r.argType[n]; ok && t != nil {
						if _, isChan := under(t).(*types.Chan); isChan {
							m := map[string]string{"close": "Close", "len": "Len", "cap": "Cap"}[id.Name]
							c.Replace(method(n.Args[0], m))
							r.changed = true
						}
					}
				}
			}
		case *ast.SendStmt:
			r.changed = true
			ce := method(n.Chan, "Send", n.Value)
			r.sendCalls[ce] = [2]ast.Expr{n.Chan, n.Value}
			c.Replace(&ast.ExprStmt{X: ce})
		case *ast.UnaryExpr:
			if n.Op == token.ARROW {
				r.changed = true
				ce := method(n.X, "Recv")
				r.recvCalls[ce] = n.X
				c.Replace(ce)
			}
		case *ast.AssignStmt:
			if len(n.Lhs) == 2 && len(n.Rhs) == 1 {
				if ce, ok := n.Rhs[0].(*ast.CallExpr); ok {
					if _, mine := r.recvCalls[ce]; mine {
						ce.Fun.(*ast.SelectorExpr).Sel = ast.NewIdent("Recv2")
					}
				}
			}
		case *ast.ValueSpec:
			if len(n.Names) == 2 && len(n.Values) == 1 {
				if ce, ok := n.Values[0].(*ast.CallExpr); ok {
					if _, mine := r.recvCalls[ce]; mine {
						ce.Fun.(*ast.SelectorExpr).Sel = ast.NewIdent("Recv2")
					}
				}
			}
		case *ast.LabeledStmt:
			// a labeled select became a block ending in a switch: the label moves to the switch,
			// so that `break Label` keeps its meaning
			if blk, ok := n.Stmt.(*ast.BlockStmt); ok && r.selectBlocks[blk] {
				last := len(blk.List) - 1
				blk.List[last] = &ast.LabeledStmt{Label: n.Label, Stmt: blk.List[last]}
				c.Replace(blk)
			}
		case *ast.SelectStmt:
			nb := r.rewriteSelect(n)
			if r.selectBlocks == nil {
				r.selectBlocks = map[*ast.BlockStmt]bool{}
			}
			r.selectBlocks[nb.(*ast.BlockStmt)] = true
			c.Replace(nb)
			r.changed = true
		case *ast.GoStmt:
			c.Replace(r.rewriteGo(n))
			r.changed = true
		case *ast.RangeStmt:
			t := r.rangeType[n]
			if t == nil {
				break
			}
			switch under(t).(type) {
			case *types.Chan:
				c.Replace(r.rewriteRangeChan(n))
				r.changed = true
			case *types.Map:
				c.Replace(r.rewriteRangeMap(n))
				r.changed = true
			}
		}
		return true
	}
	astutil.Apply(r.file, pre, post)
	r.file.Decls = append(r.file.Decls, r.extraDecls...)
	r.genResets()
	if r.usesVmc {
		astutil.AddImport(r.pkg.Fset, r.file, vmcPath)
	}
	return r.changed
}

// rewriteImports redirects qualified identifiers of the owned packages to their shims.
func (r *rewriter) rewriteImports() {
	info := r.pkg.TypesInfo
	type imp struct {
		spec     *ast.ImportSpec
		path     string
		shim     string
		alias    string
		shimUses int
		realUses int
	}
	byPkgName := map[*types.PkgName]*imp{}
	var imps []*imp
	for _, is := range r.file.Imports {
		p, _ := strconv.Unquote(is.Path.Value)
		dir, ok := importMap[p]
		if !ok {
			continue
		}
		if is.Name != nil && (is.Name.Name == "_" || is.Name.Name == ".") {
			if is.Name.Name == "." {
				die("%s: dot import of %s is not supported", r.pkg.Fset.Position(is.Pos()), p)
			}
			continue
		}
		var pn *types.PkgName
		if is.Name != nil {
			pn, _ = info.Defs[is.Name].(*types.PkgName)
		} else {
			pn, _ = info.Implicits[is].(*types.PkgName)
		}
		if pn == nil {
			continue
		}
		im := &imp{spec: is, path: p, shim: dir, alias: "vmcshim_" + dir}
		byPkgName[pn] = im
		imps = append(imps, im)
	}
	if len(imps) == 0 {
		return
	}
	ast.Inspect(r.file, func(n ast.Node) bool {
		sel, ok := n.(*ast.SelectorExpr)
		if !ok {
			return true
		}
		id, ok := sel.X.(*ast.Ident)
		if !ok {
			return true
		}
		pn, ok := info.Uses[id].(*types.PkgName)
		if !ok {
			return true
		}
		im := byPkgName[pn]
		if im == nil {
			return true
		}
		if shimExports[im.shim][sel.Sel.Name] {
			sel.X = ast.NewIdent(im.alias)
			im.shimUses++
			r.changed = true
			return true
		}
		for _, m := range mustShim[im.path] {
			if m == "*" || m == sel.Sel.Name {
				die("%s: unsupported: %s.%s has no counterpart on the controlled scheduler (vmc/%s)", r.pkg.Fset.Position(sel.Pos()), im.path, sel.Sel.Name, im.shim)
			}
		}
		im.realUses++
		return true
	})
	for _, im := range imps {
		if im.shimUses > 0 {
			astutil.AddNamedImport(r.pkg.Fset, r.file, im.alias, vmcPath+"/"+im.shim)
		}
		if im.realUses == 0 {
			name := ""
			if im.spec.Name != nil {
				name = im.spec.Name.Name
			}
			if !astutil.DeleteNamedImport(r.pkg.Fset, r.file, name, im.path) {
				die("cannot delete import %s", im.path)
			}
			r.changed = true
		}
	}
}

// genResets appends an init function that registers, for every package-level variable declared
// in this file, the statement that gives it its initial value again (see vmc.RegisterReset).
func (r *rewriter) genResets() {
	info := r.pkg.TypesInfo
	order := map[*types.Var]int{}
	for i, in := range info.InitOrder {
		for _, v := range in.Lhs {
			order[v] = i
		}
	}
	var stmts []ast.Stmt
	reg := func(idx int, st ast.Stmt) {
		fl := &ast.FuncLit{Type: &ast.FuncType{Params: &ast.FieldList{}}, Body: &ast.BlockStmt{List: []ast.Stmt{st}}}
		stmts = append(stmts, &ast.ExprStmt{X: call(r.vmc("RegisterReset"),
			&ast.BasicLit{Kind: token.STRING, Value: strconv.Quote(r.pkg.PkgPath)},
			&ast.BasicLit{Kind: token.INT, Value: strconv.Itoa(idx)}, fl)})
	}
	for _, d := range r.file.Decls {
		gd, ok := d.(*ast.GenDecl)
		if !ok || gd.Tok != token.VAR {
			continue
		}
		for _, sp := range gd.Specs {
			vs := sp.(*ast.ValueSpec)
			idxOf := func(id *ast.Ident) int {
				if v, ok := info.Defs[id].(*types.Var); ok {
					if i, ok := order[v]; ok {
						return i
					}
				}
				return -1
			}
			switch {
			case len(vs.Values) == 0:
				for _, n := range vs.Names {
					if n.Name != "_" {
						reg(-1, &ast.ExprStmt{X: call(r.vmc("Zero"), &ast.UnaryExpr{Op: token.AND, X: ast.NewIdent(n.Name)})})
					}
				}
			case len(vs.Values) == len(vs.Names):
				for i, n := range vs.Names {
					var rhs ast.Expr = vs.Values[i]
					if vs.Type != nil {
						rhs = &ast.CallExpr{Fun: &ast.ParenExpr{X: vs.Type}, Args: []ast.Expr{rhs}} // var x T = v: keep the conversion
					}
					reg(idxOf(n), &ast.AssignStmt{Lhs: []ast.Expr{ast.NewIdent(n.Name)}, Tok: token.ASSIGN, Rhs: []ast.Expr{rhs}})
				}
			default:
				var lhs []ast.Expr
				idx := -1
				for _, n := range vs.Names {
					lhs = append(lhs, ast.NewIdent(n.Name))
					if i := idxOf(n); i > idx {
						idx = i
					}
				}
				reg(idx, &ast.AssignStmt{Lhs: lhs, Tok: token.ASSIGN, Rhs: vs.Values})
			}
		}
	}
	// init functions run again after the variables (file order): func init() { ... } becomes
	// func vmcInit_<file>_<k>() plus an init that calls it, and a reset step after all variables
	k := 0
	fileTag := strings.NewReplacer(".", "_", "-", "_").Replace(filepath.Base(r.pkg.Fset.Position(r.file.Pos()).Filename))
	var initCalls []ast.Stmt
	for _, d := range r.file.Decls {
		fd, ok := d.(*ast.FuncDecl)
		if !ok || fd.Recv != nil || fd.Name.Name != "init" || fd.Body == nil {
			continue
		}
		k++
		name := fmt.Sprintf("vmcInit_%s_%d", fileTag, k)
		fd.Name = ast.NewIdent(name)
		initCalls = append(initCalls, &ast.ExprStmt{X: call(ast.NewIdent(name))})
		reg(1000000+fileIndex(r.pkg, r.file)*1000+k, &ast.ExprStmt{X: call(ast.NewIdent(name))})
	}
	if len(initCalls) > 0 {
		// the real initialisation of the process calls them once, in their original order
		r.file.Decls = append(r.file.Decls, &ast.FuncDecl{Name: ast.NewIdent("init"), Type: &ast.FuncType{Params: &ast.FieldList{}}, Body: &ast.BlockStmt{List: initCalls}})
		r.changed = true
	}
	if len(stmts) == 0 {
		return
	}
	r.file.Decls = append(r.file.Decls, &ast.FuncDecl{Name: ast.NewIdent("init"), Type: &ast.FuncType{Params: &ast.FieldList{}}, Body: &ast.BlockStmt{List: stmts}})
	r.changed = true
}

func fileIndex(p *packages.Package, f *ast.File) int {
	for i, x := range p.Syntax {
		if x == f {
			return i
		}
	}
	return 0
}

func isVmcSel(e ast.Expr, name string) bool {
	s, ok := e.(*ast.SelectorExpr)
	if !ok {
		return false
	}
	id, ok := s.X.(*ast.Ident)
	return ok && id.Name == "vmc" && s.Sel.Name == name
}

func (r *rewriter) rewriteSelect(s *ast.SelectStmt) ast.Stmt {
	r.nsel++
	blk := &ast.BlockStmt{}
	sw := &ast.SwitchStmt{Body: &ast.BlockStmt{}}
	var caseArgs []ast.Expr
	hasDefault := false
	idx := 0
	for _, cl := range s.Body.List {
		cc := cl.(*ast.CommClause)
		if cc.Comm == nil {
			hasDefault = true
			sw.Body.List = append(sw.Body.List, &ast.CaseClause{Body: cc.Body})
			continue
		}
		name := fmt.Sprintf("vmcCase%d_%d", r.nsel, idx)
		var mk ast.Expr
		var bodyPrefix []ast.Stmt
		switch cm := cc.Comm.(type) {
		case *ast.ExprStmt:
			ce, ok := cm.X.(*ast.CallExpr)
			if !ok {
				die("unsupported select case")
			}
			if ch, isRecv := r.recvCalls[ce]; isRecv {
				mk = method(ch, "RecvCase")
			} else if sv, isSend := r.sendCalls[ce]; isSend {
				mk = method(sv[0], "SendCase", sv[1])
			} else {
				die("unsupported select case expression")
			}
		case *ast.AssignStmt:
			ce, ok := cm.Rhs[0].(*ast.CallExpr)
			if !ok {
				die("unsupported select case assignment")
			}
			ch, isRecv := r.recvCalls[ce]
			if !isRecv {
				die("unsupported select case assignment (not a receive)")
			}
			mk = method(ch, "RecvCase")
			rhs := []ast.Expr{method(ast.NewIdent(name), "Value")}
			if len(cm.Lhs) == 2 {
				rhs = append(rhs, method(ast.NewIdent(name), "Ok"))
			}
			bodyPrefix = append(bodyPrefix, &ast.AssignStmt{Lhs: cm.Lhs, Tok: cm.Tok, Rhs: rhs})
			// silence "declared and not used" for defined variables the body ignores
			if cm.Tok == token.DEFINE {
				for _, l := range cm.Lhs {
					if id, ok := l.(*ast.Ident); ok && id.Name != "_" {
						bodyPrefix = append(bodyPrefix, &ast.AssignStmt{Lhs: []ast.Expr{ast.NewIdent("_")}, Tok: token.ASSIGN, Rhs: []ast.Expr{ast.NewIdent(id.Name)}})
					}
				}
			}
		default:
			die("unsupported select comm clause %T", cc.Comm)
		}
		blk.List = append(blk.List, &ast.AssignStmt{Lhs: []ast.Expr{ast.NewIdent(name)}, Tok: token.DEFINE, Rhs: []ast.Expr{mk}})
		caseArgs = append(caseArgs, ast.NewIdent(name))
		sw.Body.List = append(sw.Body.List, &ast.CaseClause{
			List: []ast.Expr{&ast.BasicLit{Kind: token.INT, Value: strconv.Itoa(idx)}},
			Body: append(bodyPrefix, cc.Body...),
		})
		idx++
	}
	hd := "false"
	if hasDefault {
		hd = "true"
	} else {
		// vmc.Select only returns the index of one of the cases: the default clause is
		// unreachable, but it keeps the switch a terminating statement when every case of the
		// select returns (a select whose cases all return needs no return after it)
		sw.Body.List = append(sw.Body.List, &ast.CaseClause{Body: []ast.Stmt{
			&ast.ExprStmt{X: call(ast.NewIdent("panic"), &ast.BasicLit{Kind: token.STRING, Value: strconv.Quote("vmc: select returned no case")})},
		}})
	}
	sw.Tag = call(r.vmc("Select"), append([]ast.Expr{ast.NewIdent(hd)}, caseArgs...)...)
	blk.List = append(blk.List, sw)
	return blk
}

func (r *rewriter) rewriteGo(g *ast.GoStmt) ast.Stmt {
	c := g.Call
	if fl, ok := c.Fun.(*ast.FuncLit); ok && len(c.Args) == 0 {
		return &ast.ExprStmt{X: call(r.vmc("Go"), fl)}
	}
	// evaluate the function value and the arguments now, run later. A declared function
	// (possibly generic, instantiated by inference at the call) is not a value to be saved: it
	// is called by name; constants and nil need no early evaluation either (and have no type
	// of their own to give a temporary).
	r.nsel++
	blk := &ast.BlockStmt{}
	info := r.pkg.TypesInfo
	var fun ast.Expr
	declared := false
	switch f := unparen(c.Fun).(type) {
	case *ast.Ident:
		_, declared = info.Uses[f].(*types.Func)
	case *ast.SelectorExpr:
		if x, ok := f.X.(*ast.Ident); ok {
			if _, isPkg := info.Uses[x].(*types.PkgName); isPkg {
				_, declared = info.Uses[f.Sel].(*types.Func)
			}
		}
	case *ast.IndexExpr, *ast.IndexListExpr:
		declared = true // explicit instantiation f[T]
	}
	fn := fmt.Sprintf("vmcGo%d", r.nsel)
	if declared {
		fun = c.Fun
	} else {
		blk.List = append(blk.List, &ast.AssignStmt{Lhs: []ast.Expr{ast.NewIdent(fn)}, Tok: token.DEFINE, Rhs: []ast.Expr{c.Fun}})
		fun = ast.NewIdent(fn)
	}
	var args []ast.Expr
	for i, a := range c.Args {
		if tv, ok := info.Types[a]; ok && (tv.Value != nil || tv.IsNil()) {
			args = append(args, a)
			continue
		}
		an := fmt.Sprintf("vmcGo%d_a%d", r.nsel, i)
		blk.List = append(blk.List, &ast.AssignStmt{Lhs: []ast.Expr{ast.NewIdent(an)}, Tok: token.DEFINE, Rhs: []ast.Expr{a}})
		args = append(args, ast.NewIdent(an))
	}
	// always through a literal: the function may return values (go x.Close())
	inner := call(fun, args...)
	if c.Ellipsis.IsValid() {
		inner.Ellipsis = 1 // go f(a, rest...): keep the spread
	}
	var body ast.Expr = &ast.FuncLit{Type: &ast.FuncType{Params: &ast.FieldList{}}, Body: &ast.BlockStmt{List: []ast.Stmt{&ast.ExprStmt{X: inner}}}}
	blk.List = append(blk.List, &ast.ExprStmt{X: call(r.vmc("Go"), body)})
	return blk
}

func (r *rewriter) maybeMR(m ast.Expr, at ast.Node) ast.Expr {
	if r.race {
		return call(r.vmc("MR"), m, r.site(at))
	}
	return m
}

func (r *rewriter) rewriteRangeChan(n *ast.RangeStmt) ast.Stmt {
	// for v := range c  =>  for { v, ok := c.Recv2(); if !ok { break }; body }
	r.nsel++
	ok := fmt.Sprintf("vmcOk%d", r.nsel)
	var lhs ast.Expr = ast.NewIdent("_")
	tok := token.DEFINE
	if n.Key != nil {
		lhs = n.Key
		tok = n.Tok
	}
	if tok != token.DEFINE {
		die("%s: range over channel with assignment form is not supported", r.pkg.Fset.Position(n.Pos()))
	}
	recv := &ast.AssignStmt{Lhs: []ast.Expr{lhs, ast.NewIdent(ok)}, Tok: token.DEFINE, Rhs: []ast.Expr{method(n.X, "Recv2")}}
	brk := &ast.IfStmt{Cond: &ast.UnaryExpr{Op: token.NOT, X: ast.NewIdent(ok)}, Body: &ast.BlockStmt{List: []ast.Stmt{&ast.BranchStmt{Tok: token.BREAK}}}}
	return &ast.ForStmt{Body: &ast.BlockStmt{List: append([]ast.Stmt{recv, brk}, n.Body.List...)}}
}

func hasBranch(b *ast.BlockStmt, tok token.Token) bool {
	found := false
	ast.Inspect(b, func(n ast.Node) bool {
		switch x := n.(type) {
		case *ast.BranchStmt:
			if x.Tok == tok && x.Label == nil {
				found = true
			}
		case *ast.ForStmt, *ast.RangeStmt, *ast.FuncLit:
			return false
		}
		return true
	})
	return found
}

func (r *rewriter) rewriteRangeMap(n *ast.RangeStmt) ast.Stmt {
	// for k, v := range m  =>  for _, k := range vmc.SortedKeys(m) { v, ok := m[k]; if !ok { continue }; body }
	if n.Tok != token.DEFINE && n.Key != nil {
		die("%s: range over map with assignment form is not supported", r.pkg.Fset.Position(n.Pos()))
	}
	r.nsel++
	key := n.Key
	if key == nil && n.Value == nil {
		// for range m { ... }
		return &ast.RangeStmt{Tok: token.ILLEGAL, X: call(r.vmc("SortedKeys"), r.maybeMR(n.X, n)), Body: n.Body}
	}
	if key == nil {
		key = ast.NewIdent("_")
	}
	body := n.Body.List
	if n.Value != nil {
		if id, ok := n.Value.(*ast.Ident); !ok || id.Name != "_" {
			kid, isId := key.(*ast.Ident)
			if !isId || kid.Name == "_" {
				kid = ast.NewIdent(fmt.Sprintf("vmcKey%d", r.nsel))
				key = kid
			}
			okn := fmt.Sprintf("vmcOk%d", r.nsel)
			get := &ast.AssignStmt{Lhs: []ast.Expr{n.Value, ast.NewIdent(okn)}, Tok: token.DEFINE, Rhs: []ast.Expr{&ast.IndexExpr{X: n.X, Index: ast.NewIdent(kid.Name)}}}
			skip := &ast.IfStmt{Cond: &ast.UnaryExpr{Op: token.NOT, X: ast.NewIdent(okn)}, Body: &ast.BlockStmt{List: []ast.Stmt{&ast.BranchStmt{Tok: token.CONTINUE}}}}
			body = append([]ast.Stmt{get, skip}, body...)
		}
	}
	return &ast.RangeStmt{Key: ast.NewIdent("_"), Value: key, Tok: token.DEFINE, X: call(r.vmc("SortedKeys"), r.maybeMR(n.X, n)), Body: &ast.BlockStmt{List: body}}
}
