// mcrewrite: typed source-to-source transformation of the gomavlib root package for engine B.
// Channel types and operations, select, go statements, range over maps/channels and the
// sync / context / time / net / crypto/rand / pion-udp imports are turned into calls of the
// vmc runtime (controlled scheduler). Output: rewritten copies + an overlay.json that also
// adds the virtual package pkg/vmc (sources in /verif/vmc). /repo is never modified.
//
// usage: mcrewrite -repo /repo -vmc /verif/vmc -out <dir> [-race]
package main

import (
	"bytes"
	"encoding/json"
	"flag"
	"fmt"
	"go/ast"
	"go/format"
	"go/parser"
	"go/token"
	"go/types"
	"os"
	"path/filepath"
	"sort"
	"strconv"
	"strings"

	"golang.org/x/tools/go/ast/astutil"
	"golang.org/x/tools/go/packages"
)

const modPath = "github.com/bluenviron/gomavlib/v3"
const vmcPath = modPath + "/pkg/vmc"

// importMap: packages whose behaviour the controlled scheduler owns. A qualified identifier
// pkg.Name is redirected to the shim when the shim exports Name; every other name keeps using
// the real package (types, constants and pure functions need no shim). Names listed in
// mustShim (or all names, "*") have behaviour the scheduler must own: using one the shim lacks
// is reported as unsupported instead of silently escaping the scheduler.
var importMap = map[string]string{
	"sync":                             "vsync",
	"sync/atomic":                      "vatomic",
	"context":                          "vctx",
	"time":                             "vtime",
	"net":                              "vnet",
	"crypto/rand":                      "vrand",
	"math/rand":                        "vmrand",
	"math/rand/v2":                     "vmrand2",
	"github.com/pion/transport/v2/udp": "vudp",
}

var mustShim = map[string][]string{
	"sync":        {"*"},
	"sync/atomic": {"*"},
	"context":     {"*"},
	"time":        {"Now", "Since", "Until", "After", "Sleep", "Tick", "NewTicker", "NewTimer", "AfterFunc", "Timer", "Ticker"},
	"net": {"Listen", "ListenPacket", "Dial", "DialTimeout", "Dialer", "ListenConfig", "ListenUDP", "ListenTCP", "ListenIP", "ListenUnix",
		"ListenUnixgram", "ListenMulticastUDP", "DialUDP", "DialTCP", "DialIP", "DialUnix", "Pipe", "FileConn", "FileListener", "FilePacketConn",
		"LookupHost", "LookupIP", "LookupAddr", "LookupPort", "LookupCNAME", "LookupSRV", "LookupMX", "LookupNS", "LookupTXT", "Resolver", "DefaultResolver"},
	"crypto/rand":                      {"Read", "Reader", "Int", "Prime", "Text"},
	"math/rand":                        {"Int", "Intn", "Int31", "Int31n", "Int63", "Int63n", "Uint32", "Uint64", "Float32", "Float64", "ExpFloat64", "NormFloat64", "Perm", "Shuffle", "Read", "Seed"},
	"math/rand/v2":                     {"Int", "IntN", "Int32", "Int32N", "Int64", "Int64N", "Uint", "UintN", "Uint32", "Uint32N", "Uint64", "Uint64N", "Float32", "Float64", "ExpFloat64", "NormFloat64", "Perm", "Shuffle", "N"},
	"github.com/pion/transport/v2/udp": {"Listen", "ListenConfig"},
}

// shimExports[shim dir] = exported top-level names (filled from the shim sources)
var shimExports = map[string]map[string]bool{}

func loadShimExports(vmcDir string) {
	for _, dir := range importMap {
		names := map[string]bool{}
		fset := token.NewFileSet()
		pkgs, err := parser.ParseDir(fset, filepath.Join(vmcDir, dir), nil, 0)
		if err != nil {
			die("shim %s: %v", dir, err)
		}
		for _, p := range pkgs {
			for _, f := range p.Files {
				for _, d := range f.Decls {
					switch x := d.(type) {
					case *ast.FuncDecl:
						if x.Recv == nil && x.Name.IsExported() {
							names[x.Name.Name] = true
						}
					case *ast.GenDecl:
						for _, sp := range x.Specs {
							switch y := sp.(type) {
							case *ast.TypeSpec:
								if y.Name.IsExported() {
									names[y.Name.Name] = true
								}
							case *ast.ValueSpec:
								for _, n := range y.Names {
									if n.IsExported() {
										names[n.Name] = true
									}
								}
							}
						}
					}
				}
			}
		}
		shimExports[dir] = names
	}
}

func die(format string, a ...any) {
	fmt.Fprintf(os.Stderr, "mcrewrite: "+format+"\n", a...)
	os.Exit(2)
}

func main() {
	repo := flag.String("repo", "/repo", "repository root")
	vmcDir := flag.String("vmc", "/verif/vmc", "vmc runtime sources")
	out := flag.String("out", "", "output directory")
	race := flag.Bool("race", false, "instrument memory accesses")
	flag.Parse()
	if *out == "" {
		die("-out required")
	}
	os.MkdirAll(*out, 0o755)
	cfg := &packages.Config{
		Mode:       packages.NeedName | packages.NeedFiles | packages.NeedSyntax | packages.NeedTypes | packages.NeedTypesInfo | packages.NeedCompiledGoFiles,
		Dir:        *repo,
		BuildFlags: []string{"-tags=verif"},
		Env:        append(os.Environ(), "GOFLAGS=-mod=mod", "GOPROXY=off", "GOSUMDB=off", "GOTOOLCHAIN=local"),
	}
	loadShimExports(*vmcDir)
	cfg.Mode |= packages.NeedImports | packages.NeedDeps
	roots, err := packages.Load(cfg, ".")
	if err != nil {
		die("load: %v", err)
	}
	// every package of the module the root package depends on is rewritten (a goroutine, channel,
	// lock or clock read that moves into another package of the module stays under the
	// scheduler); the generated dialect packages are data only and stay as they are
	var pkgs []*packages.Package
	seen := map[string]bool{}
	var visit func(p *packages.Package)
	visit = func(p *packages.Package) {
		if seen[p.PkgPath] {
			return
		}
		seen[p.PkgPath] = true
		if p.PkgPath != modPath && !strings.HasPrefix(p.PkgPath, modPath+"/") {
			return
		}
		if strings.HasPrefix(p.PkgPath, modPath+"/pkg/dialects") || strings.HasPrefix(p.PkgPath, vmcPath) {
			return
		}
		pkgs = append(pkgs, p)
		var keys []string
		for k := range p.Imports {
			keys = append(keys, k)
		}
		sort.Strings(keys)
		for _, k := range keys {
			visit(p.Imports[k])
		}
	}
	for _, p := range roots {
		visit(p)
	}
	for _, p := range pkgs {
		if !untracked[p.PkgPath] {
			tracked[p.PkgPath] = true
		}
	}
	allPkgs = pkgs
	overlay := map[string]string{}
	for _, p := range pkgs {
		if len(p.Errors) > 0 {
			die("package %s: %v", p.PkgPath, p.Errors)
		}
		for i, f := range p.Syntax {
			name := p.CompiledGoFiles[i]
			rw := &rewriter{pkg: p, file: f, full: true, race: *race && tracked[p.PkgPath]}
			changed := rw.run()
			if !changed {
				continue
			}
			var buf bytes.Buffer
			f.Comments = nil
			if err := format.Node(&buf, token.NewFileSet(), f); err != nil {
				die("print %s: %v", name, err)
			}
			rel, _ := filepath.Rel(*repo, name)
			dst := filepath.Join(*out, strings.ReplaceAll(rel, "/", "__"))
			if err := os.WriteFile(dst, buf.Bytes(), 0o644); err != nil {
				die("%v", err)
			}
			overlay[name] = dst
		}
	}
	// virtual package pkg/vmc
	filepath.Walk(*vmcDir, func(path string, info os.FileInfo, err error) error {
		if err != nil || info.IsDir() || !strings.HasSuffix(path, ".go") || strings.HasSuffix(path, "_test.go") {
			return nil
		}
		rel, _ := filepath.Rel(*vmcDir, path)
		overlay[filepath.Join(*repo, "pkg", "vmc", rel)] = path
		return nil
	})
	b, _ := json.MarshalIndent(map[string]any{"Replace": overlay}, "", " ")
	if err := os.WriteFile(filepath.Join(*out, "overlay.json"), b, 0o644); err != nil {
		die("%v", err)
	}
}

type rewriter struct {
	pkg     *packages.Package
	file    *ast.File
	full    bool
	race    bool
	usesVmc bool
	changed bool
	nsel    int

	recvCalls map[*ast.CallExpr]ast.Expr    // generated c.Recv() -> c
	sendCalls map[*ast.CallExpr][2]ast.Expr // generated c.Send(v) -> c, v
	argType   map[*ast.CallExpr]types.Type  // type of first argument of close/len/cap (original)
	rangeType map[*ast.RangeStmt]types.Type
	regLits   map[*ast.UnaryExpr]bool

	// race mode
	ptrRecv      bool
	inReg        map[*ast.CallExpr]bool
	selectBlocks map[*ast.BlockStmt]bool
	accW         map[ast.Expr]bool // expression is written (assignment target, inc/dec)
	skipAcc      map[ast.Expr]bool // address taken / struct-valued inner selector: not an access
}

// race mode: packages whose memory accesses are instrumented: every rewritten package except
// the codec packages (pure functions of their arguments on the paths the node uses; their
// reflection-heavy inner loops would dominate the run time)
var tracked = map[string]bool{}
var untracked = map[string]bool{modPath + "/pkg/message": true, modPath + "/pkg/dialect": true, modPath + "/pkg/x25": true}
var allPkgs []*packages.Package

// pointerReceivers (race mode): value-receiver methods of struct types that also have
// pointer-receiver methods (V1Frame, V2Frame getters) get pointer receivers, so that the field
// reads they perform happen on the shared object and are seen by the tracker (with a value
// receiver the whole struct is copied implicitly at the call, which no source construct shows).
// The methods do not modify their receiver, so the meaning is unchanged; the types are used
// through pointers everywhere (only the pointer types implement frame.Frame).
func (r *rewriter) pointerReceivers() {
	hasPtr := map[string]bool{}
	for _, f := range r.pkg.Syntax {
		for _, d := range f.Decls {
			fd, ok := d.(*ast.FuncDecl)
			if !ok || fd.Recv == nil || len(fd.Recv.List) != 1 {
				continue
			}
			if st, ok := fd.Recv.List[0].Type.(*ast.StarExpr); ok {
				if id, ok := st.X.(*ast.Ident); ok {
					hasPtr[id.Name] = true
				}
			}
		}
	}
	for _, d := range r.file.Decls {
		fd, ok := d.(*ast.FuncDecl)
		if !ok || fd.Recv == nil || len(fd.Recv.List) != 1 {
			continue
		}
		id, ok := fd.Recv.List[0].Type.(*ast.Ident)
		if !ok || !hasPtr[id.Name] {
			continue
		}
		obj := r.pkg.Types.Scope().Lookup(id.Name)
		if obj == nil {
			continue
		}
		if _, isStruct := obj.Type().Underlying().(*types.Struct); !isStruct {
			continue
		}
		if valueImplementsSomething(obj.Type()) {
			// the value type satisfies an interface of the module through its value-receiver
			// methods (endpoint configurations): pointer receivers would break that
			continue
		}
		fd.Recv.List[0].Type = &ast.StarExpr{X: id}
		r.changed = true
		r.ptrRecv = true
	}
}

// valueImplementsSomething: T (not *T) implements a non-empty interface declared in one of the
// rewritten packages.
func valueImplementsSomething(t types.Type) bool {
	for _, p := range allPkgs {
		sc := p.Types.Scope()
		for _, name := range sc.Names() {
			tn, ok := sc.Lookup(name).(*types.TypeName)
			if !ok {
				continue
			}
			it, ok := tn.Type().Underlying().(*types.Interface)
			if !ok || it.NumMethods() == 0 {
				continue
			}
			if types.Implements(t, it) {
				return true
			}
		}
	}
	return false
}

func unparen(e ast.Expr) ast.Expr {
	for {
		p, ok := e.(*ast.ParenExpr)
		if !ok {
			return e
		}
		e = p.X
	}
}

func (r *rewriter) site(n ast.Node) ast.Expr {
	p := n.Pos()
	switch x := n.(type) {
	case *ast.SelectorExpr:
		p = x.Sel.Pos()
	case *ast.IndexExpr:
		p = x.Lbrack
	case *ast.CallExpr:
		p = x.Lparen
	case *ast.RangeStmt:
		p = x.For
	}
	pos := r.pkg.Fset.Position(p)
	return &ast.BasicLit{Kind: token.STRING, Value: strconv.Quote(fmt.Sprintf("%s:%d", filepath.Base(pos.Filename), pos.Line))}
}

// isTrackedField: selector is a field of a struct declared in a tracked package, addressable.
func (r *rewriter) isTrackedField(sel *ast.SelectorExpr) bool {
	info := r.pkg.TypesInfo
	s, ok := info.Selections[sel]
	if !ok || s.Kind() != types.FieldVal {
		return false
	}
	if s.Obj().Pkg() == nil || !tracked[s.Obj().Pkg().Path()] {
		return false
	}
	tv, ok := info.Types[sel]
	return ok && tv.Addressable()
}

func (r *rewriter) isPkgVar(id *ast.Ident) bool {
	v, ok := r.pkg.TypesInfo.Uses[id].(*types.Var)
	if !ok || v.IsField() || v.Pkg() == nil || !tracked[v.Pkg().Path()] {
		return false
	}
	return v.Parent() == v.Pkg().Scope()
}

func isAggregate(t types.Type) bool {
	if t == nil {
		return false
	}
	switch t.Underlying().(type) {
	case *types.Struct, *types.Array:
		return true
	}
	return false
}

// racePre classifies accesses before children are rewritten.
func (r *rewriter) racePre(c *astutil.Cursor) {
	info := r.pkg.TypesInfo
	switch n := c.Node().(type) {
	case *ast.AssignStmt:
		if n.Tok != token.DEFINE {
			for _, l := range n.Lhs {
				r.accW[unparen(l)] = true
			}
		}
	case *ast.IncDecStmt:
		r.accW[unparen(n.X)] = true
	case *ast.UnaryExpr:
		if n.Op == token.AND {
			r.skipAcc[unparen(n.X)] = true
		}
	case *ast.SelectorExpr:
		// inner selector of struct / array type: the outer selector names the accessed memory
		if inner, ok := unparen(n.X).(*ast.SelectorExpr); ok && isAggregate(info.TypeOf(inner)) {
			r.skipAcc[inner] = true
		}
		if inner, ok := unparen(n.X).(*ast.Ident); ok && isAggregate(info.TypeOf(inner)) {
			r.skipAcc[inner] = true
		}
	case *ast.IndexExpr:
		if inner, ok := unparen(n.X).(*ast.SelectorExpr); ok && isAggregate(info.TypeOf(inner)) {
			r.skipAcc[inner] = true
		}
	case *ast.RangeStmt:
		if n.Tok == token.ASSIGN {
			if n.Key != nil {
				r.accW[unparen(n.Key)] = true
			}
			if n.Value != nil {
				r.accW[unparen(n.Value)] = true
			}
		}
	}
}

// raceWrap wraps an addressable expression: (*vmc.R(&e, site)) / (*vmc.W(&e, site))
func (r *rewriter) raceWrap(e ast.Expr, write bool, at ast.Node) ast.Expr {
	fn := "R"
	if write {
		fn = "W"
	}
	r.changed = true
	return &ast.ParenExpr{X: &ast.StarExpr{X: call(r.vmc(fn), &ast.UnaryExpr{Op: token.AND, X: e}, r.site(at))}}
}

func (r *rewriter) vmc(name string) ast.Expr {
	r.usesVmc = true
	return &ast.SelectorExpr{X: ast.NewIdent("vmc"), Sel: ast.NewIdent(name)}
}

func call(fun ast.Expr, args ...ast.Expr) *ast.CallExpr { return &ast.CallExpr{Fun: fun, Args: args} }
func method(x ast.Expr, name string, args ...ast.Expr) *ast.CallExpr {
	return call(&ast.SelectorExpr{X: x, Sel: ast.NewIdent(name)}, args...)
}

func (r *rewriter) run() bool {
	r.rewriteImports()
	info := r.pkg.TypesInfo
	r.accW = map[ast.Expr]bool{}
	r.skipAcc = map[ast.Expr]bool{}
	r.inReg = map[*ast.CallExpr]bool{}
	r.recvCalls = map[*ast.CallExpr]ast.Expr{}
	r.sendCalls = map[*ast.CallExpr][2]ast.Expr{}
	r.argType = map[*ast.CallExpr]types.Type{}
	r.rangeType = map[*ast.RangeStmt]types.Type{}
	r.regLits = map[*ast.UnaryExpr]bool{}

	if r.race {
		r.pointerReceivers()
	}
	regKey := map[*ast.IndexExpr]bool{}
	mapLits := map[*ast.CompositeLit]bool{}
	markInsert := func(e ast.Expr) {
		ix, ok := unparen(e).(*ast.IndexExpr)
		if !ok {
			return
		}
		t := info.TypeOf(ix.X)
		if t == nil {
			return
		}
		mt, ok := t.Underlying().(*types.Map)
		if !ok {
			return
		}
		if _, basic := mt.Key().Underlying().(*types.Basic); basic {
			return
		}
		regKey[ix] = true
	}
	raceField := map[*ast.SelectorExpr]bool{}
	raceVar := map[*ast.Ident]bool{}
	raceMap := map[*ast.IndexExpr]types.Type{}
	pre := func(c *astutil.Cursor) bool {
		if r.race {
			r.racePre(c)
			switch n := c.Node().(type) {
			case *ast.SelectorExpr:
				if r.isTrackedField(n) {
					raceField[n] = true
				}
			case *ast.Ident:
				if r.isPkgVar(n) {
					raceVar[n] = true
				}
			case *ast.IndexExpr:
				if t := info.TypeOf(n.X); t != nil {
					if _, ok := t.Underlying().(*types.Map); ok {
						raceMap[n] = t
					}
				}
			}
		}
		switch n := c.Node().(type) {
		case *ast.AssignStmt:
			for _, l := range n.Lhs {
				markInsert(l)
			}
		case *ast.IncDecStmt:
			markInsert(n.X)
		}
		switch n := c.Node().(type) {
		case *ast.CallExpr:
			if id, ok := n.Fun.(*ast.Ident); ok && (id.Name == "close" || id.Name == "len" || id.Name == "cap" || id.Name == "delete") && len(n.Args) >= 1 {
				if _, isBuiltin := info.Uses[id].(*types.Builtin); isBuiltin {
					r.argType[n] = info.TypeOf(n.Args[0])
				}
			}
		case *ast.RangeStmt:
			r.rangeType[n] = info.TypeOf(n.X)
		case *ast.CompositeLit:
			// map literal with non-basic keys: the keys enter a map
			if t := info.TypeOf(n); t != nil {
				if mt, ok := t.Underlying().(*types.Map); ok {
					if _, basic := mt.Key().Underlying().(*types.Basic); !basic {
						mapLits[n] = true
					}
				}
			}
		}
		return true
	}
	post := func(c *astutil.Cursor) bool {
		if r.race {
			switch n := c.Node().(type) {
			case *ast.SelectorExpr:
				if raceField[n] && !r.skipAcc[n] {
					// the selector that names a method / qualified identifier is never wrapped (not a field)
					c.Replace(r.raceWrap(n, r.accW[n], n))
					return true
				}
			case *ast.Ident:
				if raceVar[n] && !r.skipAcc[n] {
					if _, isSelName := c.Parent().(*ast.SelectorExpr); isSelName && c.Name() == "Sel" {
						break
					}
					if kv, ok := c.Parent().(*ast.KeyValueExpr); ok && kv.Key == n {
						break
					}
					c.Replace(r.raceWrap(n, r.accW[n], n))
					return true
				}
			case *ast.IndexExpr:
				if _, ok := raceMap[n]; ok {
					fn := "MR"
					if r.accW[n] {
						fn = "MW"
					}
					n.X = call(r.vmc(fn), n.X, r.site(n))
					r.changed = true
				}
			case *ast.CallExpr:
				if id, ok := n.Fun.(*ast.Ident); ok && len(n.Args) >= 1 {
					if _, isBuiltin := info.Uses[id].(*types.Builtin); isBuiltin {
						if t := r.argType[n]; t != nil {
							if _, isMap := t.Underlying().(*types.Map); isMap {
								switch id.Name {
								case "delete":
									n.Args[0] = call(r.vmc("MW"), n.Args[0], r.site(n))
									r.changed = true
								case "len":
									n.Args[0] = call(r.vmc("MR"), n.Args[0], r.site(n))
									r.changed = true
								}
							}
						}
					}
				}
			}
		}
		if cl, ok := c.Node().(*ast.CompositeLit); ok && mapLits[cl] {
			for _, el := range cl.Elts {
				if kv, ok := el.(*ast.KeyValueExpr); ok {
					if _, isLit := kv.Key.(*ast.CompositeLit); isLit {
						continue // elided key type: cannot be wrapped, and holds no pre-existing pointer identity worth an id before use
					}
					kv.Key = call(r.vmc("RegKey"), kv.Key)
					r.changed = true
				}
			}
		}
		if ix, ok := c.Node().(*ast.IndexExpr); ok && regKey[ix] {
			// every key that enters a map gets its deterministic order id (see vmc.RegKey)
			ix.Index = call(r.vmc("RegKey"), ix.Index)
			r.changed = true
		}
		switch n := c.Node().(type) {
		case *ast.ChanType:
			if !r.full {
				break
			}
			r.changed = true
			c.Replace(&ast.StarExpr{X: &ast.IndexExpr{X: r.vmc("Chan"), Index: n.Value}})
		case *ast.CallExpr:
			if id, ok := n.Fun.(*ast.Ident); ok {
				switch id.Name {
				case "make":
					if len(n.Args) >= 1 {
						if st, ok := n.Args[0].(*ast.StarExpr); ok {
							if ix, ok := st.X.(*ast.IndexExpr); ok && isVmcSel(ix.X, "Chan") {
								var size ast.Expr = &ast.BasicLit{Kind: token.INT, Value: "0"}
								if len(n.Args) == 2 {
									size = n.Args[1]
								}
								c.Replace(call(&ast.IndexExpr{X: r.vmc("NewChan"), Index: ix.Index}, size))
							}
						}
					}
				case "close", "len", "cap":
					if t, ok := r.argType[n]; ok && t != nil {
						if _, isChan := t.Underlying().(*types.Chan); isChan {
							m := map[string]string{"close": "Close", "len": "Len", "cap": "Cap"}[id.Name]
							c.Replace(method(n.Args[0], m))
							r.changed = true
						}
					}
				}
			}
		case *ast.SendStmt:
			r.changed = true
			ce := method(n.Chan, "Send", n.Value)
			r.sendCalls[ce] = [2]ast.Expr{n.Chan, n.Value}
			c.Replace(&ast.ExprStmt{X: ce})
		case *ast.UnaryExpr:
			if n.Op == token.ARROW {
				r.changed = true
				ce := method(n.X, "Recv")
				r.recvCalls[ce] = n.X
				c.Replace(ce)
			}
		case *ast.AssignStmt:
			if len(n.Lhs) == 2 && len(n.Rhs) == 1 {
				if ce, ok := n.Rhs[0].(*ast.CallExpr); ok {
					if _, mine := r.recvCalls[ce]; mine {
						ce.Fun.(*ast.SelectorExpr).Sel = ast.NewIdent("Recv2")
					}
				}
			}
		case *ast.ValueSpec:
			if len(n.Names) == 2 && len(n.Values) == 1 {
				if ce, ok := n.Values[0].(*ast.CallExpr); ok {
					if _, mine := r.recvCalls[ce]; mine {
						ce.Fun.(*ast.SelectorExpr).Sel = ast.NewIdent("Recv2")
					}
				}
			}
		case *ast.LabeledStmt:
			// a labeled select became a block ending in a switch: the label moves to the switch,
			// so that `break Label` keeps its meaning
			if blk, ok := n.Stmt.(*ast.BlockStmt); ok && r.selectBlocks[blk] {
				last := len(blk.List) - 1
				blk.List[last] = &ast.LabeledStmt{Label: n.Label, Stmt: blk.List[last]}
				c.Replace(blk)
			}
		case *ast.SelectStmt:
			nb := r.rewriteSelect(n)
			if r.selectBlocks == nil {
				r.selectBlocks = map[*ast.BlockStmt]bool{}
			}
			r.selectBlocks[nb.(*ast.BlockStmt)] = true
			c.Replace(nb)
			r.changed = true
		case *ast.GoStmt:
			c.Replace(r.rewriteGo(n))
			r.changed = true
		case *ast.RangeStmt:
			t := r.rangeType[n]
			if t == nil {
				break
			}
			switch t.Underlying().(type) {
			case *types.Chan:
				c.Replace(r.rewriteRangeChan(n))
				r.changed = true
			case *types.Map:
				c.Replace(r.rewriteRangeMap(n))
				r.changed = true
			}
		}
		return true
	}
	astutil.Apply(r.file, pre, post)
	if r.usesVmc {
		astutil.AddImport(r.pkg.Fset, r.file, vmcPath)
	}
	return r.changed
}

// rewriteImports redirects qualified identifiers of the owned packages to their shims.
func (r *rewriter) rewriteImports() {
	info := r.pkg.TypesInfo
	type imp struct {
		spec     *ast.ImportSpec
		path     string
		shim     string
		alias    string
		shimUses int
		realUses int
	}
	byPkgName := map[*types.PkgName]*imp{}
	var imps []*imp
	for _, is := range r.file.Imports {
		p, _ := strconv.Unquote(is.Path.Value)
		dir, ok := importMap[p]
		if !ok {
			continue
		}
		if is.Name != nil && (is.Name.Name == "_" || is.Name.Name == ".") {
			if is.Name.Name == "." {
				die("%s: dot import of %s is not supported", r.pkg.Fset.Position(is.Pos()), p)
			}
			continue
		}
		var pn *types.PkgName
		if is.Name != nil {
			pn, _ = info.Defs[is.Name].(*types.PkgName)
		} else {
			pn, _ = info.Implicits[is].(*types.PkgName)
		}
		if pn == nil {
			continue
		}
		im := &imp{spec: is, path: p, shim: dir, alias: "vmcshim_" + dir}
		byPkgName[pn] = im
		imps = append(imps, im)
	}
	if len(imps) == 0 {
		return
	}
	ast.Inspect(r.file, func(n ast.Node) bool {
		sel, ok := n.(*ast.SelectorExpr)
		if !ok {
			return true
		}
		id, ok := sel.X.(*ast.Ident)
		if !ok {
			return true
		}
		pn, ok := info.Uses[id].(*types.PkgName)
		if !ok {
			return true
		}
		im := byPkgName[pn]
		if im == nil {
			return true
		}
		if shimExports[im.shim][sel.Sel.Name] {
			sel.X = ast.NewIdent(im.alias)
			im.shimUses++
			r.changed = true
			return true
		}
		for _, m := range mustShim[im.path] {
			if m == "*" || m == sel.Sel.Name {
				die("%s: unsupported: %s.%s has no counterpart on the controlled scheduler (vmc/%s)", r.pkg.Fset.Position(sel.Pos()), im.path, sel.Sel.Name, im.shim)
			}
		}
		im.realUses++
		return true
	})
	for _, im := range imps {
		if im.shimUses > 0 {
			astutil.AddNamedImport(r.pkg.Fset, r.file, im.alias, vmcPath+"/"+im.shim)
		}
		if im.realUses == 0 {
			name := ""
			if im.spec.Name != nil {
				name = im.spec.Name.Name
			}
			if !astutil.DeleteNamedImport(r.pkg.Fset, r.file, name, im.path) {
				die("cannot delete import %s", im.path)
			}
			r.changed = true
		}
	}
}

func isVmcSel(e ast.Expr, name string) bool {
	s, ok := e.(*ast.SelectorExpr)
	if !ok {
		return false
	}
	id, ok := s.X.(*ast.Ident)
	return ok && id.Name == "vmc" && s.Sel.Name == name
}

func (r *rewriter) rewriteSelect(s *ast.SelectStmt) ast.Stmt {
	r.nsel++
	blk := &ast.BlockStmt{}
	sw := &ast.SwitchStmt{Body: &ast.BlockStmt{}}
	var caseArgs []ast.Expr
	hasDefault := false
	idx := 0
	for _, cl := range s.Body.List {
		cc := cl.(*ast.CommClause)
		if cc.Comm == nil {
			hasDefault = true
			sw.Body.List = append(sw.Body.List, &ast.CaseClause{Body: cc.Body})
			continue
		}
		name := fmt.Sprintf("vmcCase%d_%d", r.nsel, idx)
		var mk ast.Expr
		var bodyPrefix []ast.Stmt
		switch cm := cc.Comm.(type) {
		case *ast.ExprStmt:
			ce, ok := cm.X.(*ast.CallExpr)
			if !ok {
				die("unsupported select case")
			}
			if ch, isRecv := r.recvCalls[ce]; isRecv {
				mk = method(ch, "RecvCase")
			} else if sv, isSend := r.sendCalls[ce]; isSend {
				mk = method(sv[0], "SendCase", sv[1])
			} else {
				die("unsupported select case expression")
			}
		case *ast.AssignStmt:
			ce, ok := cm.Rhs[0].(*ast.CallExpr)
			if !ok {
				die("unsupported select case assignment")
			}
			ch, isRecv := r.recvCalls[ce]
			if !isRecv {
				die("unsupported select case assignment (not a receive)")
			}
			mk = method(ch, "RecvCase")
			rhs := []ast.Expr{method(ast.NewIdent(name), "Value")}
			if len(cm.Lhs) == 2 {
				rhs = append(rhs, method(ast.NewIdent(name), "Ok"))
			}
			bodyPrefix = append(bodyPrefix, &ast.AssignStmt{Lhs: cm.Lhs, Tok: cm.Tok, Rhs: rhs})
			// silence "declared and not used" for defined variables the body ignores
			if cm.Tok == token.DEFINE {
				for _, l := range cm.Lhs {
					if id, ok := l.(*ast.Ident); ok && id.Name != "_" {
						bodyPrefix = append(bodyPrefix, &ast.AssignStmt{Lhs: []ast.Expr{ast.NewIdent("_")}, Tok: token.ASSIGN, Rhs: []ast.Expr{ast.NewIdent(id.Name)}})
					}
				}
			}
		default:
			die("unsupported select comm clause %T", cc.Comm)
		}
		blk.List = append(blk.List, &ast.AssignStmt{Lhs: []ast.Expr{ast.NewIdent(name)}, Tok: token.DEFINE, Rhs: []ast.Expr{mk}})
		caseArgs = append(caseArgs, ast.NewIdent(name))
		sw.Body.List = append(sw.Body.List, &ast.CaseClause{
			List: []ast.Expr{&ast.BasicLit{Kind: token.INT, Value: strconv.Itoa(idx)}},
			Body: append(bodyPrefix, cc.Body...),
		})
		idx++
	}
	hd := "false"
	if hasDefault {
		hd = "true"
	} else {
		// vmc.Select only returns the index of one of the cases: the default clause is
		// unreachable, but it keeps the switch a terminating statement when every case of the
		// select returns (a select whose cases all return needs no return after it)
		sw.Body.List = append(sw.Body.List, &ast.CaseClause{Body: []ast.Stmt{
			&ast.ExprStmt{X: call(ast.NewIdent("panic"), &ast.BasicLit{Kind: token.STRING, Value: strconv.Quote("vmc: select returned no case")})},
		}})
	}
	sw.Tag = call(r.vmc("Select"), append([]ast.Expr{ast.NewIdent(hd)}, caseArgs...)...)
	blk.List = append(blk.List, sw)
	return blk
}

func (r *rewriter) rewriteGo(g *ast.GoStmt) ast.Stmt {
	c := g.Call
	if fl, ok := c.Fun.(*ast.FuncLit); ok && len(c.Args) == 0 {
		return &ast.ExprStmt{X: call(r.vmc("Go"), fl)}
	}
	// evaluate the function value and the arguments now, run later
	r.nsel++
	blk := &ast.BlockStmt{}
	fn := fmt.Sprintf("vmcGo%d", r.nsel)
	blk.List = append(blk.List, &ast.AssignStmt{Lhs: []ast.Expr{ast.NewIdent(fn)}, Tok: token.DEFINE, Rhs: []ast.Expr{c.Fun}})
	var args []ast.Expr
	for i, a := range c.Args {
		an := fmt.Sprintf("vmcGo%d_a%d", r.nsel, i)
		blk.List = append(blk.List, &ast.AssignStmt{Lhs: []ast.Expr{ast.NewIdent(an)}, Tok: token.DEFINE, Rhs: []ast.Expr{a}})
		args = append(args, ast.NewIdent(an))
	}
	// always through a literal: the function may return values (go x.Close())
	inner := call(ast.NewIdent(fn), args...)
	if c.Ellipsis.IsValid() {
		inner.Ellipsis = 1 // go f(a, rest...): keep the spread
	}
	var body ast.Expr = &ast.FuncLit{Type: &ast.FuncType{Params: &ast.FieldList{}}, Body: &ast.BlockStmt{List: []ast.Stmt{&ast.ExprStmt{X: inner}}}}
	blk.List = append(blk.List, &ast.ExprStmt{X: call(r.vmc("Go"), body)})
	return blk
}

func (r *rewriter) maybeMR(m ast.Expr, at ast.Node) ast.Expr {
	if r.race {
		return call(r.vmc("MR"), m, r.site(at))
	}
	return m
}

func (r *rewriter) rewriteRangeChan(n *ast.RangeStmt) ast.Stmt {
	// for v := range c  =>  for { v, ok := c.Recv2(); if !ok { break }; body }
	r.nsel++
	ok := fmt.Sprintf("vmcOk%d", r.nsel)
	var lhs ast.Expr = ast.NewIdent("_")
	tok := token.DEFINE
	if n.Key != nil {
		lhs = n.Key
		tok = n.Tok
	}
	if tok != token.DEFINE {
		die("%s: range over channel with assignment form is not supported", r.pkg.Fset.Position(n.Pos()))
	}
	recv := &ast.AssignStmt{Lhs: []ast.Expr{lhs, ast.NewIdent(ok)}, Tok: token.DEFINE, Rhs: []ast.Expr{method(n.X, "Recv2")}}
	brk := &ast.IfStmt{Cond: &ast.UnaryExpr{Op: token.NOT, X: ast.NewIdent(ok)}, Body: &ast.BlockStmt{List: []ast.Stmt{&ast.BranchStmt{Tok: token.BREAK}}}}
	return &ast.ForStmt{Body: &ast.BlockStmt{List: append([]ast.Stmt{recv, brk}, n.Body.List...)}}
}

func hasBranch(b *ast.BlockStmt, tok token.Token) bool {
	found := false
	ast.Inspect(b, func(n ast.Node) bool {
		switch x := n.(type) {
		case *ast.BranchStmt:
			if x.Tok == tok && x.Label == nil {
				found = true
			}
		case *ast.ForStmt, *ast.RangeStmt, *ast.FuncLit:
			return false
		}
		return true
	})
	return found
}

func (r *rewriter) rewriteRangeMap(n *ast.RangeStmt) ast.Stmt {
	// for k, v := range m  =>  for _, k := range vmc.SortedKeys(m) { v, ok := m[k]; if !ok { continue }; body }
	if n.Tok != token.DEFINE && n.Key != nil {
		die("%s: range over map with assignment form is not supported", r.pkg.Fset.Position(n.Pos()))
	}
	r.nsel++
	key := n.Key
	if key == nil {
		key = ast.NewIdent("_")
	}
	body := n.Body.List
	if n.Value != nil {
		if id, ok := n.Value.(*ast.Ident); !ok || id.Name != "_" {
			kid, isId := key.(*ast.Ident)
			if !isId || kid.Name == "_" {
				kid = ast.NewIdent(fmt.Sprintf("vmcKey%d", r.nsel))
				key = kid
			}
			okn := fmt.Sprintf("vmcOk%d", r.nsel)
			get := &ast.AssignStmt{Lhs: []ast.Expr{n.Value, ast.NewIdent(okn)}, Tok: token.DEFINE, Rhs: []ast.Expr{&ast.IndexExpr{X: n.X, Index: ast.NewIdent(kid.Name)}}}
			skip := &ast.IfStmt{Cond: &ast.UnaryExpr{Op: token.NOT, X: ast.NewIdent(okn)}, Body: &ast.BlockStmt{List: []ast.Stmt{&ast.BranchStmt{Tok: token.CONTINUE}}}}
			body = append([]ast.Stmt{get, skip}, body...)
		}
	}
	return &ast.RangeStmt{Key: ast.NewIdent("_"), Value: key, Tok: token.DEFINE, X: call(r.vmc("SortedKeys"), r.maybeMR(n.X, n)), Body: &ast.BlockStmt{List: body}}
}
