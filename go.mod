module verif

go 1.22.0

toolchain go1.23.5

require github.com/bluenviron/gomavlib/v3 v3.0.0

require (
	golang.org/x/mod v0.22.0 // indirect
	golang.org/x/sync v0.10.0 // indirect
)

require (
	github.com/creack/goselect v0.1.2 // indirect
	github.com/pion/logging v0.2.2 // indirect
	github.com/pion/transport/v2 v2.2.10 // indirect
	go.bug.st/serial v1.6.3 // indirect
	golang.org/x/net v0.34.0 // indirect
	golang.org/x/sys v0.29.0 // indirect
	golang.org/x/tools v0.29.0
)

replace github.com/bluenviron/gomavlib/v3 => /repo
