module verif

go 1.22.0

toolchain go1.23.5

require github.com/bluenviron/gomavlib/v3 v3.0.0

replace github.com/bluenviron/gomavlib/v3 => /repo
