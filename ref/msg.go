package ref

import (
	"fmt"
	"math"
	"reflect"
	"strconv"
	"strings"
)

// FieldDef is one field of a message definition (as in the XML).
type FieldDef struct {
	Name     string // wire name (snake case)
	Type     string // wire type: double, uint64_t, int64_t, float, uint32_t, int32_t, uint16_t, int16_t, uint8_t, int8_t, char
	ArrayLen int    // 0 = scalar
	Ext      bool
	Enum     bool // Go side value is an uint64 enum
	Index    int  // declaration index
}

// MsgDef is a message definition.
type MsgDef struct {
	Name   string
	ID     uint32
	Fields []FieldDef // declaration order
	// StructIndex[i] is the index of the Go struct field that holds Fields[i]; nil = the struct
	// declares its fields in the same order (definitions derived from the struct itself)
	StructIndex []int
}

func (d *MsgDef) structField(i int) int {
	if d.StructIndex != nil {
		return d.StructIndex[i]
	}
	return i
}

// TypeSize gives the wire size of a primitive type.
func TypeSize(t string) int {
	switch t {
	case "double", "uint64_t", "int64_t":
		return 8
	case "float", "uint32_t", "int32_t":
		return 4
	case "uint16_t", "int16_t":
		return 2
	case "uint8_t", "int8_t", "char":
		return 1
	}
	panic("ref: unknown wire type " + t)
}

// FieldSize is the total wire size of a field.
func (f *FieldDef) FieldSize() int {
	n := TypeSize(f.Type)
	if f.ArrayLen > 0 {
		n *= f.ArrayLen
	}
	return n
}

// Layout returns the wire order: base fields bucketed by primitive size 8,4,2,1 keeping
// declaration order inside a bucket, then extension fields in declaration order.
func (d *MsgDef) Layout() []FieldDef {
	var out []FieldDef
	for _, sz := range []int{8, 4, 2, 1} {
		for _, f := range d.Fields {
			if !f.Ext && TypeSize(f.Type) == sz {
				out = append(out, f)
			}
		}
	}
	for _, f := range d.Fields {
		if f.Ext {
			out = append(out, f)
		}
	}
	return out
}

// Sizes returns base and extended payload sizes as ints (no 8 bit wrap).
func (d *MsgDef) Sizes() (base, ext int) {
	for _, f := range d.Fields {
		ext += f.FieldSize()
		if !f.Ext {
			base += f.FieldSize()
		}
	}
	return
}

// CRCExtra per https://mavlink.io/en/guide/serialization.html#crc_extra
func (d *MsgDef) CRCExtra() byte {
	var b []byte
	b = append(b, d.Name+" "...)
	for _, f := range d.Layout() {
		if f.Ext {
			continue
		}
		b = append(b, f.Type+" "...)
		b = append(b, f.Name+" "...)
		if f.ArrayLen > 0 {
			b = append(b, byte(f.ArrayLen))
		}
	}
	c := CRC16(b)
	return byte(c&0xFF) ^ byte(c>>8)
}

// Val is the canonical value of one field: raw bits (masked to wire width) per element,
// or a string.
type Val struct {
	Bits []uint64
	Str  string
	IsS  bool
}

func (v Val) String() string {
	if v.IsS {
		return strconv.Quote(v.Str)
	}
	return fmt.Sprintf("%x", v.Bits)
}

// EqualVals compares two value lists.
func EqualVals(a, b []Val) bool {
	if len(a) != len(b) {
		return false
	}
	for i := range a {
		if a[i].IsS != b[i].IsS || a[i].Str != b[i].Str || len(a[i].Bits) != len(b[i].Bits) {
			return false
		}
		for j := range a[i].Bits {
			if a[i].Bits[j] != b[i].Bits[j] {
				return false
			}
		}
	}
	return true
}

func mask(sz int) uint64 {
	if sz == 8 {
		return ^uint64(0)
	}
	return (uint64(1) << (8 * uint(sz))) - 1
}

// strLen is the wire length of a char field.
func strLen(f *FieldDef) int {
	if f.ArrayLen > 0 {
		return f.ArrayLen
	}
	return 1
}

// CanonStr cuts a string at the declared length and at the first NUL.
func CanonStr(s string, n int) string {
	if len(s) > n {
		s = s[:n]
	}
	if i := strings.IndexByte(s, 0); i >= 0 {
		s = s[:i]
	}
	return s
}

// Canon canonicalises values (declaration order) the way the wire imposes; in v1 extension
// fields come back as zero.
func (d *MsgDef) Canon(vals []Val, v2 bool) []Val {
	out := make([]Val, len(vals))
	for i, f := range d.Fields {
		v := vals[i]
		if f.Type == "char" {
			s := CanonStr(v.Str, strLen(&f))
			if f.Ext && !v2 {
				s = ""
			}
			out[i] = Val{IsS: true, Str: s}
			continue
		}
		m := mask(TypeSize(f.Type))
		bits := make([]uint64, len(v.Bits))
		for j, b := range v.Bits {
			if f.Ext && !v2 {
				bits[j] = 0
			} else {
				bits[j] = b & m
			}
		}
		out[i] = Val{Bits: bits}
	}
	return out
}

// Encode produces the payload. v2: all fields then trailing zero bytes stripped, never
// below one byte; v1: base fields only.
func (d *MsgDef) Encode(vals []Val, v2 bool) []byte {
	var b []byte
	for _, f := range d.Layout() {
		if f.Ext && !v2 {
			continue
		}
		v := vals[f.Index]
		if f.Type == "char" {
			n := strLen(&f)
			buf := make([]byte, n)
			copy(buf, v.Str)
			b = append(b, buf...)
			continue
		}
		sz := TypeSize(f.Type)
		for _, x := range v.Bits {
			for k := 0; k < sz; k++ {
				b = append(b, byte(x>>(8*uint(k))))
			}
		}
	}
	if v2 {
		for len(b) > 1 && b[len(b)-1] == 0 {
			b = b[:len(b)-1]
		}
	}
	return b
}

// Decode reads a payload. v2: zero-extends short payloads, ignores trailing bytes; v1: the
// length must equal the base size exactly (ok=false otherwise).
func (d *MsgDef) Decode(p []byte, v2 bool) ([]Val, bool) {
	base, ext := d.Sizes()
	if v2 {
		if len(p) < ext {
			q := make([]byte, ext)
			copy(q, p)
			p = q
		}
	} else if len(p) != base {
		return nil, false
	}
	out := make([]Val, len(d.Fields))
	for _, f := range d.Fields {
		// zero value for fields not on the wire
		if f.Type == "char" {
			out[f.Index] = Val{IsS: true}
		} else {
			n := f.ArrayLen
			if n == 0 {
				n = 1
			}
			out[f.Index] = Val{Bits: make([]uint64, n)}
		}
	}
	pos := 0
	for _, f := range d.Layout() {
		if f.Ext && !v2 {
			continue
		}
		if f.Type == "char" {
			n := strLen(&f)
			out[f.Index] = Val{IsS: true, Str: CanonStr(string(p[pos:pos+n]), n)}
			pos += n
			continue
		}
		sz := TypeSize(f.Type)
		n := f.ArrayLen
		if n == 0 {
			n = 1
		}
		bits := make([]uint64, n)
		for j := 0; j < n; j++ {
			var x uint64
			for k := 0; k < sz; k++ {
				x |= uint64(p[pos+k]) << (8 * uint(k))
			}
			bits[j] = x
			pos += sz
		}
		out[f.Index] = Val{Bits: bits}
	}
	return out, true
}

var goToWire = map[string]string{
	"float64": "double", "uint64": "uint64_t", "int64": "int64_t", "float32": "float",
	"uint32": "uint32_t", "int32": "int32_t", "uint16": "uint16_t", "int16": "int16_t",
	"uint8": "uint8_t", "int8": "int8_t", "string": "char",
}

func snake(s string, upper bool) string {
	var sb strings.Builder
	for i, r := range s {
		if r >= 'A' && r <= 'Z' {
			if i > 0 {
				sb.WriteByte('_')
			}
			if !upper {
				r += 'a' - 'A'
			}
		} else if upper && r >= 'a' && r <= 'z' {
			r -= 'a' - 'A'
		}
		sb.WriteRune(r)
	}
	return sb.String()
}

// DefFromStruct derives the definition of a message from a Go struct type following the
// documented struct conventions of the library (Message prefix, mavenum / mavlen / mavext /
// mavname tags).
func DefFromStruct(t reflect.Type, id uint32) (*MsgDef, error) {
	if t.Kind() == reflect.Ptr {
		t = t.Elem()
	}
	if !strings.HasPrefix(t.Name(), "Message") {
		return nil, fmt.Errorf("no Message prefix")
	}
	d := &MsgDef{Name: snake(t.Name()[len("Message"):], true), ID: id}
	for i := 0; i < t.NumField(); i++ {
		sf := t.Field(i)
		f := FieldDef{Index: i}
		gt := sf.Type
		if gt.Kind() == reflect.Array {
			f.ArrayLen = gt.Len()
			gt = gt.Elem()
		}
		if e := sf.Tag.Get("mavenum"); e != "" {
			f.Enum = true
			w, ok := goToWire[e]
			if !ok || gt.Kind() != reflect.Uint64 {
				return nil, fmt.Errorf("bad enum")
			}
			f.Type = w
		} else {
			w, ok := goToWire[gt.Name()]
			if !ok {
				return nil, fmt.Errorf("unsupported type %s", gt.Name())
			}
			f.Type = w
			if gt.Kind() == reflect.String {
				if l := sf.Tag.Get("mavlen"); l != "" {
					n, err := strconv.Atoi(l)
					if err != nil {
						return nil, err
					}
					f.ArrayLen = n
				}
			}
		}
		f.Ext = sf.Tag.Get("mavext") == "true"
		if n := sf.Tag.Get("mavname"); n != "" {
			f.Name = n
		} else {
			f.Name = snake(sf.Name, false)
		}
		d.Fields = append(d.Fields, f)
	}
	return d, nil
}

// ValsFromStruct extracts the raw (uncanonicalised) values of a message struct.
func ValsFromStruct(d *MsgDef, v reflect.Value) []Val {
	if v.Kind() == reflect.Ptr {
		v = v.Elem()
	}
	out := make([]Val, len(d.Fields))
	for i := range d.Fields {
		fv := v.Field(d.structField(i))
		if fv.Kind() == reflect.String {
			out[i] = Val{IsS: true, Str: fv.String()}
			continue
		}
		if fv.Kind() == reflect.Array {
			bits := make([]uint64, fv.Len())
			for j := range bits {
				bits[j] = scalarBits(fv.Index(j))
			}
			out[i] = Val{Bits: bits}
			continue
		}
		out[i] = Val{Bits: []uint64{scalarBits(fv)}}
	}
	return out
}

func scalarBits(v reflect.Value) uint64 {
	switch v.Kind() {
	case reflect.Float32:
		if v.CanAddr() {
			// through the pointer: reflect's Float() would quiet signalling NaNs
			return uint64(math.Float32bits(*(v.Addr().Interface().(*float32))))
		}
		return uint64(math.Float32bits(float32(v.Float())))
	case reflect.Float64:
		if v.CanAddr() {
			return math.Float64bits(*(v.Addr().Interface().(*float64)))
		}
		return math.Float64bits(v.Float())
	case reflect.Int8:
		return uint64(uint8(v.Int()))
	case reflect.Int16:
		return uint64(uint16(v.Int()))
	case reflect.Int32:
		return uint64(uint32(v.Int()))
	case reflect.Int64:
		return uint64(v.Int())
	case reflect.Uint8, reflect.Uint16, reflect.Uint32, reflect.Uint64:
		return v.Uint()
	}
	panic("ref: unsupported kind " + v.Kind().String())
}

// SetStruct writes raw values into a message struct (bits are truncated by Go's own
// conversions; used to build inputs).
func SetStruct(d *MsgDef, v reflect.Value, vals []Val) {
	if v.Kind() == reflect.Ptr {
		v = v.Elem()
	}
	for i := range d.Fields {
		fv := v.Field(d.structField(i))
		if fv.Kind() == reflect.String {
			fv.SetString(vals[i].Str)
			continue
		}
		if fv.Kind() == reflect.Array {
			for j := 0; j < fv.Len(); j++ {
				setScalar(fv.Index(j), vals[i].Bits[j])
			}
			continue
		}
		setScalar(fv, vals[i].Bits[0])
	}
}

func setScalar(v reflect.Value, bits uint64) {
	switch v.Kind() {
	case reflect.Float32:
		// go through the pointer so that NaN payloads are kept bit for bit
		*(v.Addr().Interface().(*float32)) = math.Float32frombits(uint32(bits))
	case reflect.Float64:
		*(v.Addr().Interface().(*float64)) = math.Float64frombits(bits)
	case reflect.Int8:
		v.SetInt(int64(int8(bits)))
	case reflect.Int16:
		v.SetInt(int64(int16(bits)))
	case reflect.Int32:
		v.SetInt(int64(int32(bits)))
	case reflect.Int64:
		v.SetInt(int64(bits))
	case reflect.Uint8:
		v.SetUint(bits & 0xFF)
	case reflect.Uint16:
		v.SetUint(bits & 0xFFFF)
	case reflect.Uint32:
		v.SetUint(bits & 0xFFFFFFFF)
	case reflect.Uint64:
		v.SetUint(bits)
	default:
		panic("ref: unsupported kind " + v.Kind().String())
	}
}

// ZeroVals returns all-zero values for a definition.
func (d *MsgDef) ZeroVals() []Val {
	out := make([]Val, len(d.Fields))
	for i, f := range d.Fields {
		if f.Type == "char" {
			out[i] = Val{IsS: true}
			continue
		}
		n := f.ArrayLen
		if n == 0 {
			n = 1
		}
		out[i] = Val{Bits: make([]uint64, n)}
	}
	return out
}

// CloneVals deep-copies.
func CloneVals(v []Val) []Val {
	out := make([]Val, len(v))
	for i := range v {
		out[i] = v[i]
		out[i].Bits = append([]uint64(nil), v[i].Bits...)
	}
	return out
}

// MustEncodePing encodes a PING payload (time_usec u64 = 3, seq u32, target_system,
// target_component = 0) by the layout rules; used by scenarios to number items.
func MustEncodePing(seq uint32, v2 bool) []byte {
	b := make([]byte, 14)
	b[0] = 3
	for k := 0; k < 4; k++ {
		b[8+k] = byte(seq >> (8 * uint(k)))
	}
	if v2 {
		for len(b) > 1 && b[len(b)-1] == 0 {
			b = b[:len(b)-1]
		}
	}
	return b
}

// PingSeq extracts the seq field of a PING payload.
func PingSeq(p []byte, v2 bool) (uint32, bool) {
	q := make([]byte, 14)
	if len(p) > 14 || (!v2 && len(p) != 14) {
		return 0, false
	}
	copy(q, p)
	return uint32(q[8]) | uint32(q[9])<<8 | uint32(q[10])<<16 | uint32(q[11])<<24, true
}
