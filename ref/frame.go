// Package ref holds the reference models (oracles). Everything here is written from the
// MAVLink serialization / signing specification and shares no code with gomavlib.
package ref

import (
	"crypto/sha256"
	"fmt"
)

// CRC16 is a bit-serial CRC-16/MCRF4XX: reflected polynomial 0x1021 (0x8408), init 0xFFFF,
// no final xor.
func CRC16(data []byte) uint16 {
	return CRC16Update(0xFFFF, data)
}

// CRC16Update continues a CRC from a given register value.
func CRC16Update(crc uint16, data []byte) uint16 {
	for _, b := range data {
		crc ^= uint16(b)
		for i := 0; i < 8; i++ {
			if crc&1 != 0 {
				crc = (crc >> 1) ^ 0x8408
			} else {
				crc >>= 1
			}
		}
	}
	return crc
}

// Frame is a version-independent description of a MAVLink frame.
type Frame struct {
	V2        bool
	Incompat  byte // v2 only
	Compat    byte // v2 only
	Seq       byte
	Sys       byte
	Comp      byte
	ID        uint32
	Payload   []byte
	Checksum  uint16
	LinkID    byte   // v2 signed only
	Timestamp uint64 // 48 bit
	Sig       [6]byte
}

// Signed tells whether the signed flag is set.
func (f *Frame) Signed() bool { return f.V2 && f.Incompat&1 != 0 }

func (f *Frame) String() string {
	v := 1
	if f.V2 {
		v = 2
	}
	s := fmt.Sprintf("v%d seq=%d sys=%d comp=%d id=%d len=%d ck=%04x", v, f.Seq, f.Sys, f.Comp, f.ID, len(f.Payload), f.Checksum)
	if f.V2 {
		s += fmt.Sprintf(" inc=%d cmp=%d", f.Incompat, f.Compat)
	}
	if f.Signed() {
		s += fmt.Sprintf(" link=%d ts=%d sig=%x", f.LinkID, f.Timestamp, f.Sig)
	}
	return s
}

// HeaderAndPayload returns the bytes covered by the checksum (length .. payload).
func (f *Frame) crcBody() []byte {
	var b []byte
	b = append(b, byte(len(f.Payload)))
	if f.V2 {
		b = append(b, f.Incompat, f.Compat)
	}
	b = append(b, f.Seq, f.Sys, f.Comp)
	b = append(b, byte(f.ID))
	if f.V2 {
		b = append(b, byte(f.ID>>8), byte(f.ID>>16))
	}
	b = append(b, f.Payload...)
	return b
}

// ComputeChecksum is CRC16(len..payload || crcExtra).
func (f *Frame) ComputeChecksum(crcExtra byte) uint16 {
	return CRC16(append(f.crcBody(), crcExtra))
}

// Bytes is the wire layout of the frame (marker, header, payload, LE checksum, optional
// 13 byte signature block).
func (f *Frame) Bytes() []byte {
	var b []byte
	if f.V2 {
		b = append(b, 0xFD)
	} else {
		b = append(b, 0xFE)
	}
	b = append(b, f.crcBody()...)
	b = append(b, byte(f.Checksum), byte(f.Checksum>>8))
	if f.Signed() {
		b = append(b, f.LinkID)
		for i := 0; i < 6; i++ {
			b = append(b, byte(f.Timestamp>>(8*uint(i))))
		}
		b = append(b, f.Sig[:]...)
	}
	return b
}

// Sign computes the 48 bit signature: SHA-256(key | header | payload | crc | link | ts)[:6].
func (f *Frame) Sign(key []byte) [6]byte {
	full := f.Bytes()
	// everything except the trailing 6 signature bytes
	h := sha256.New()
	h.Write(key)
	h.Write(full[:len(full)-6])
	var out [6]byte
	copy(out[:], h.Sum(nil)[:6])
	return out
}

// ItemKind classifies one parse step.
type ItemKind int

const (
	// KindFrame is a structurally complete frame.
	KindFrame ItemKind = iota
	// KindJunk is one byte that is not a marker.
	KindJunk
	// KindBadFlags is a v2 header with an incompat flag other than 0 / 1.
	KindBadFlags
	// KindTruncated means the stream ends inside a frame.
	KindTruncated
)

// Item is one step of the reference stream parser.
type Item struct {
	Kind  ItemKind
	Start int
	End   int // exclusive; for KindTruncated = len(stream)
	Frame *Frame
}

// ParseOne parses one item at the start of b. ok=false if b is empty.
func ParseOne(b []byte) (Item, bool) {
	if len(b) == 0 {
		return Item{}, false
	}
	switch b[0] {
	case 0xFE:
		if len(b) < 6 {
			return Item{Kind: KindTruncated, End: len(b)}, true
		}
		n := int(b[1])
		if len(b) < 6+n+2 {
			return Item{Kind: KindTruncated, End: len(b)}, true
		}
		f := &Frame{Seq: b[2], Sys: b[3], Comp: b[4], ID: uint32(b[5])}
		if n > 0 {
			f.Payload = append([]byte{}, b[6:6+n]...)
		}
		f.Checksum = uint16(b[6+n]) | uint16(b[7+n])<<8
		return Item{Kind: KindFrame, End: 8 + n, Frame: f}, true
	case 0xFD:
		if len(b) < 10 {
			return Item{Kind: KindTruncated, End: len(b)}, true
		}
		n := int(b[1])
		if b[2] != 0 && b[2] != 1 {
			return Item{Kind: KindBadFlags, End: 10}, true
		}
		total := 10 + n + 2
		if b[2]&1 != 0 {
			total += 13
		}
		if len(b) < total {
			return Item{Kind: KindTruncated, End: len(b)}, true
		}
		f := &Frame{V2: true, Incompat: b[2], Compat: b[3], Seq: b[4], Sys: b[5], Comp: b[6],
			ID: uint32(b[7]) | uint32(b[8])<<8 | uint32(b[9])<<16}
		if n > 0 {
			f.Payload = append([]byte{}, b[10:10+n]...)
		}
		f.Checksum = uint16(b[10+n]) | uint16(b[11+n])<<8
		if f.Signed() {
			s := b[12+n:]
			f.LinkID = s[0]
			for i := 0; i < 6; i++ {
				f.Timestamp |= uint64(s[1+i]) << (8 * uint(i))
			}
			copy(f.Sig[:], s[7:13])
		}
		return Item{Kind: KindFrame, End: total, Frame: f}, true
	default:
		return Item{Kind: KindJunk, End: 1}, true
	}
}

// ParseStream parses a whole stream with the reference resynchronisation granularity:
// junk consumes one byte, a structurally complete frame consumes itself, a bad-flags
// header consumes the 10 header bytes, truncation consumes the rest.
func ParseStream(b []byte) []Item {
	var out []Item
	pos := 0
	for pos < len(b) {
		it, _ := ParseOne(b[pos:])
		it.Start = pos
		it.End += pos
		out = append(out, it)
		pos = it.End
	}
	return out
}

// Window is the replay window reference: newest accepted timestamp; refuse iff
// newest - ts > 1_000_000.
type Window struct {
	Has    bool
	Newest uint64
}

// Accept decides and updates.
func (w *Window) Accept(ts uint64) bool {
	if w.Has && w.Newest > ts && w.Newest-ts > 1000000 {
		return false
	}
	if !w.Has || ts > w.Newest {
		w.Has = true
		w.Newest = ts
	}
	return true
}
