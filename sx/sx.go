//go:build vmc

// Package sx is the driver shared by the engine-B checks: it shards the exploration of
// scenario variants over worker processes, merges statistics, reproduces violations,
// writes replay files and evidence.
package sx

import (
	"bytes"
	"encoding/json"
	"fmt"
	"os"
	"os/exec"
	"runtime"
	"sort"
	"strconv"
	"strings"
	"sync"
	"time"

	"github.com/bluenviron/gomavlib/v3/pkg/vmc"

	"verif/bx"
)

// Exec is one fresh instance of a scenario (state shared between body and oracle).
type Exec interface {
	Body()
	Check(r *vmc.Result) string
	Outcome(r *vmc.Result) string
}

// Variant is one closed scenario.
type Variant struct {
	Name        string
	Class       string // violation class (known-finding matching)
	Adversarial bool
	MaxSteps    int
	MaxTime     time.Duration
	Bound       int // deviation budget for this tier
	Shards      int // level-1 shards (parallelism for big variants)
	New         func() Exec
}

type workerOut struct {
	Variant string         `json:"variant"`
	Stats   vmc.Stats      `json:"stats"`
	Problem string         `json:"problem,omitempty"`
	Picks   []int          `json:"picks,omitempty"`
	Err     string         `json:"err,omitempty"`
	Sample  map[string]any `json:"sample,omitempty"`
}

func runVariant(v *Variant, prefix []int, record bool) (*vmc.Result, string, Exec) {
	var ex Exec
	opt := vmc.Options{Bound: v.Bound, Adversarial: v.Adversarial, MaxSteps: v.MaxSteps, MaxTime: v.MaxTime, Record: record, NoCache: true}
	r := vmc.RunOnce(prefix, opt, func() {
		ex = v.New()
		ex.Body()
	})
	if r.End == "divergence" {
		return r, "MACHINERY: " + r.PanicMsg, ex
	}
	return r, ex.Check(r), ex
}

func worker(v *Variant, shard, nshards int, deadline time.Time) workerOut {
	out := workerOut{Variant: v.Name}
	// determinism: the default schedule twice, identical traces and outcomes
	r1, p1, e1 := runVariant(v, nil, true)
	r2, p2, e2 := runVariant(v, nil, true)
	if strings.Join(r1.Ops, "\n") != strings.Join(r2.Ops, "\n") || (p1 == "") != (p2 == "") || r1.End != r2.End || e1.Outcome(r1) != e2.Outcome(r2) {
		out.Err = "the default schedule is not deterministic: some source of nondeterminism is not owned"
		return out
	}
	var ex Exec
	e := &vmc.Explorer{
		Opt:      vmc.Options{Bound: v.Bound, Adversarial: v.Adversarial, MaxSteps: v.MaxSteps, MaxTime: v.MaxTime, NoCache: os.Getenv("VERIF_CACHE") != "1"},
		Body:     func() { ex = v.New(); ex.Body() },
		Check:    func(r *vmc.Result) string { return ex.Check(r) },
		Outcome:  func(r *vmc.Result) string { return ex.Outcome(r) },
		Deadline: deadline,
		Shard:    shard, NShards: nshards,
	}
	e.OnViolation = func(picks []int, problem string, r *vmc.Result) bool {
		out.Problem, out.Picks = problem, picks
		return false
	}
	e.Run()
	out.Stats = e.Stats
	if shard == 0 {
		out.Sample = map[string]any{"variant": v.Name, "default_schedule_ops": len(r1.Ops), "first_ops": head(r1.Ops, 12), "outcome": e1.Outcome(r1)}
	}
	return out
}

func head(s []string, n int) []string {
	if len(s) > n {
		return s[:n]
	}
	return s
}

type replayFile struct {
	Variant string `json:"variant"`
	Picks   []int  `json:"picks"`
	Problem string `json:"problem"`
}

// Main is the entry point of an engine-B check.
func Main(id string, variants func(thorough bool) []Variant) {
	args := os.Args[1:]
	if len(args) >= 1 && args[0] == "--worker" {
		// --worker <tier> <variant index> <shard> <nshards> <deadline unix>
		vs := variants(args[1] == "thorough")
		vi, _ := strconv.Atoi(args[2])
		sh, _ := strconv.Atoi(args[3])
		ns, _ := strconv.Atoi(args[4])
		dl, _ := strconv.ParseInt(args[5], 10, 64)
		out := worker(&vs[vi], sh, ns, time.Unix(dl, 0))
		json.NewEncoder(os.Stdout).Encode(out)
		return
	}
	if len(args) >= 1 && args[0] == "--reproduce" {
		// --reproduce <tier> <variant index> <picks json> : exit 1 if the check fails
		vs := variants(args[1] == "thorough")
		vi, _ := strconv.Atoi(args[2])
		var picks []int
		json.Unmarshal([]byte(args[3]), &picks)
		_, p, _ := runVariant(&vs[vi], picks, false)
		fmt.Print(p)
		if p != "" {
			os.Exit(1)
		}
		return
	}
	r := bx.Start(id, "model_checking")
	vs := variants(r.Thorough())
	byName := map[string]int{}
	for i := range vs {
		byName[vs[i].Name] = i
	}
	r.Replayer = func(class string, raw json.RawMessage) (bool, string) {
		var rf replayFile
		json.Unmarshal(raw, &rf)
		vi, ok := byName[rf.Variant]
		if !ok {
			return false, "unknown variant " + rf.Variant
		}
		if r.ReplayPath != "" {
			res, p, _ := runVariant(&vs[vi], rf.Picks, true)
			fmt.Print(vmc.FormatTrace(res))
			return p != "", p
		}
		// reproduction during a run: fresh process (the scheduler is process-global)
		pj, _ := json.Marshal(rf.Picks)
		cmd := exec.Command(os.Args[0], "--reproduce", r.Tier, strconv.Itoa(vi), string(pj))
		out, err := cmd.Output()
		return err != nil, string(out)
	}
	if r.ReplayMode() {
		return
	}

	type job struct{ vi, shard, nshards int }
	var jobs []job
	only := os.Getenv("VERIF_ONLY")
	for i := range vs {
		if only != "" && !strings.Contains(vs[i].Name, only) {
			continue
		}
		n := vs[i].Shards
		if n < 1 {
			n = 1
		}
		for s := 0; s < n; s++ {
			jobs = append(jobs, job{i, s, n})
		}
	}
	// big variants first
	sort.SliceStable(jobs, func(a, b int) bool { return vs[jobs[a].vi].Shards > vs[jobs[b].vi].Shards })
	deadline := time.Now().Add(12 * time.Minute)
	if r.Thorough() {
		deadline = time.Now().Add(150 * time.Minute)
	}
	if s := os.Getenv("VERIF_DEADLINE_S"); s != "" {
		if n, err := strconv.Atoi(s); err == nil {
			deadline = time.Now().Add(time.Duration(n) * time.Second)
		}
	}
	var mu sync.Mutex
	total := vmc.Stats{Outcomes: map[string]int{}}
	perVariant := map[string]*vmc.Stats{}
	var machinery []string
	next := 0
	var wg sync.WaitGroup
	nw := runtime.NumCPU()
	for w := 0; w < nw; w++ {
		wg.Add(1)
		go func() {
			defer wg.Done()
			for {
				mu.Lock()
				if next >= len(jobs) {
					mu.Unlock()
					return
				}
				j := jobs[next]
				next++
				mu.Unlock()
				cmd := exec.Command(os.Args[0], "--worker", r.Tier, strconv.Itoa(j.vi), strconv.Itoa(j.shard), strconv.Itoa(j.nshards), strconv.FormatInt(deadline.Unix(), 10))
				cmd.Env = append(os.Environ(), "GOMAXPROCS=2")
				var stderr bytes.Buffer
				cmd.Stderr = &stderr
				outb, err := cmd.Output()
				var wo workerOut
				if err != nil || json.Unmarshal(outb, &wo) != nil {
					mu.Lock()
					machinery = append(machinery, fmt.Sprintf("worker %s shard %d/%d failed: %v\n%s", vs[j.vi].Name, j.shard, j.nshards, err, tail(stderr.String(), 3000)))
					mu.Unlock()
					continue
				}
				mu.Lock()
				if wo.Err != "" {
					machinery = append(machinery, wo.Variant+": "+wo.Err)
				}
				st := perVariant[wo.Variant]
				if st == nil {
					st = &vmc.Stats{Outcomes: map[string]int{}}
					perVariant[wo.Variant] = st
				}
				for _, t := range []*vmc.Stats{&total, st} {
					t.Executions += wo.Stats.Executions
					t.Steps += wo.Stats.Steps
					t.Pruned += wo.Stats.Pruned
					t.States += wo.Stats.States
					if wo.Stats.MaxTrace > t.MaxTrace {
						t.MaxTrace = wo.Stats.MaxTrace
					}
					t.Capped = t.Capped || wo.Stats.Capped
					for k, n := range wo.Stats.Outcomes {
						t.Outcomes[k] += n
					}
				}
				if wo.Sample != nil {
					r.Sample(wo.Sample)
				}
				mu.Unlock()
				if wo.Problem != "" {
					if strings.HasPrefix(wo.Problem, "MACHINERY") {
						mu.Lock()
						machinery = append(machinery, wo.Variant+": "+wo.Problem)
						mu.Unlock()
						continue
					}
					class := vs[j.vi].Class
					if class == "" {
						class = "schedule"
					}
					r.Fail(class, wo.Variant, replayFile{wo.Variant, wo.Picks, wo.Problem}, wo.Variant+": "+wo.Problem)
				}
			}
		}()
	}
	wg.Wait()
	if len(machinery) > 0 {
		bx.Fatalf("%s", strings.Join(machinery, "\n"))
	}
	if total.Capped {
		r.Capped("deadline reached before the bound was completed in some variant")
	}
	distinctOutcomes := 0
	perV := map[string]any{}
	names := make([]string, 0, len(perVariant))
	for n := range perVariant {
		names = append(names, n)
	}
	sort.Strings(names)
	for _, n := range names {
		st := perVariant[n]
		distinctOutcomes += len(st.Outcomes)
		perV[n] = map[string]any{"executions": st.Executions, "steps": st.Steps, "outcomes": len(st.Outcomes), "bound": vs[byName[n]].Bound, "capped": st.Capped}
	}
	if os.Getenv("VERIF_VERBOSE") != "" {
		for _, n := range names {
			st := perVariant[n]
			fmt.Printf("  %-50s exec=%-8d steps=%-10d outcomes=%-5d maxtrace=%d\n", n, st.Executions, st.Steps, len(st.Outcomes), st.MaxTrace)
		}
	}
	r.Assumption = append(r.Assumption,
		"schedules further than the stated deviation bound from the non-preemptive round-robin default scheduler are not covered",
		"code between two visible operations (channel, select, mutex, WaitGroup, spawn, timer, fake I/O) runs atomically; unsynchronised memory accesses are C15's subject",
		"transports, listeners, dialers, serial ports and the clock are fakes on a virtual clock; real sockets and the OS are not part of the explored system",
	)
	states := total.States
	if states == 0 {
		states = distinctOutcomes
	}
	r.Finish(map[string]any{
		"states":                        states,
		"transitions":                   total.Steps,
		"traces_validated_against_impl": total.Executions,
		"evaluations":                   total.Executions,
		"distinct_nontrivial":           distinctOutcomes,
		"rule":                          "stateless exploration of the real (source-rewritten) node under a controlled scheduler: every execution whose total deviation cost from the default schedule is within the bound, all select/rendezvous/environment choices enumerated; transitions = scheduler steps; distinct = distinct observation logs per scenario variant (states = distinct cache keys when the state cache is on, else distinct outcomes)",
		"variants":                      perV,
		"cost_model":                    "deviation bounding: choosing the i-th enabled thread in canonical order costs i; a non-default ready select case or rendezvous partner costs 1; scripted environment choices (closing point, chunk boundary, fault position) are free and enumerated completely",
		"cache":                         os.Getenv("VERIF_CACHE") == "1",
	})
}

func tail(s string, n int) string {
	if len(s) > n {
		return s[len(s)-n:]
	}
	return s
}
