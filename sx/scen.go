//go:build vmc

package sx

import (
	"errors"
	"fmt"
	"io"
	"net"
	"reflect"
	"time"

	"github.com/bluenviron/gomavlib/v3"
	"github.com/bluenviron/gomavlib/v3/pkg/dialect"
	"github.com/bluenviron/gomavlib/v3/pkg/dialects/common"
	"github.com/bluenviron/gomavlib/v3/pkg/frame"
	"github.com/bluenviron/gomavlib/v3/pkg/message"
	"github.com/bluenviron/gomavlib/v3/pkg/vmc"
	"github.com/bluenviron/gomavlib/v3/pkg/vmc/vctx"
	"github.com/bluenviron/gomavlib/v3/pkg/vmc/vnet"
	"github.com/bluenviron/gomavlib/v3/pkg/vmc/vrand"

	"verif/ref"
)

// Dialect is the small dialect of the scenarios: HEARTBEAT(0), SYS_STATUS(1), PING(4),
// REQUEST_DATA_STREAM(66), PROTOCOL_VERSION(300).
func Dialect() *dialect.Dialect {
	return &dialect.Dialect{Version: 3, Messages: []message.Message{
		&common.MessageHeartbeat{}, &common.MessageSysStatus{}, &common.MessagePing{},
		&common.MessageRequestDataStream{}, &common.MessageProtocolVersion{},
	}}
}

var defs = map[uint32]*ref.MsgDef{}

// Def returns the reference definition of a message of the scenario dialect.
func Def(m message.Message) *ref.MsgDef {
	if d, ok := defs[m.GetID()]; ok {
		return d
	}
	d, err := ref.DefFromStruct(reflect.TypeOf(m), m.GetID())
	if err != nil {
		panic(err)
	}
	defs[m.GetID()] = d
	return d
}

// DefByID looks a definition up by id (nil when not in the scenario dialect).
func DefByID(id uint32) *ref.MsgDef {
	for _, m := range Dialect().Messages {
		if m.GetID() == id {
			return Def(m)
		}
	}
	return nil
}

// Key is the signing key of the scenarios.
var Key = func() []byte {
	k := make([]byte, 32)
	for i := range k {
		k[i] = byte(i + 1)
	}
	return k
}()

// FrameOf builds the reference wire bytes of a message.
func FrameOf(v2 bool, seq, sys, comp byte, m message.Message, signKey []byte, link byte, ts uint64) []byte {
	d := Def(m)
	vals := ref.ValsFromStruct(d, reflect.ValueOf(m))
	f := ref.Frame{V2: v2, Seq: seq, Sys: sys, Comp: comp, ID: m.GetID(), Payload: d.Encode(vals, v2)}
	if signKey != nil {
		f.Incompat = 1
		f.LinkID = link
		f.Timestamp = ts
	}
	f.Checksum = f.ComputeChecksum(d.CRCExtra())
	if signKey != nil {
		f.Sig = f.Sign(signKey)
	}
	return f.Bytes()
}

// ParseWire parses everything written to a fake transport: the concatenated output must be a
// sequence of whole frames, nothing interleaved or left over (how many Write calls a frame
// takes is not prescribed). Returns the frames or a problem.
func ParseWire(writes [][]byte) ([]*ref.Frame, string) {
	var all []byte
	for _, w := range writes {
		all = append(all, w...)
	}
	var out []*ref.Frame
	for _, it := range ref.ParseStream(all) {
		if it.Kind != ref.KindFrame {
			return out, fmt.Sprintf("transport output is not a sequence of whole frames: at offset %d: % x", it.Start, all[it.Start:minInt(len(all), it.Start+40)])
		}
		out = append(out, it.Frame)
	}
	return out, ""
}

// ParseConn is ParseWire for a fake connection: when the connection has been closed, the output
// may end inside a frame (a frame that reaches the transport in several Write calls is cut
// short by the close); everything before must be whole frames.
func ParseConn(c *vnet.FakeConn) ([]*ref.Frame, string) {
	if !c.IsClosed() {
		return ParseWire(c.Written)
	}
	all := Concat(c.Written)
	var out []*ref.Frame
	items := ref.ParseStream(all)
	for i, it := range items {
		if it.Kind == ref.KindTruncated && i == len(items)-1 {
			break
		}
		if it.Kind != ref.KindFrame {
			return out, fmt.Sprintf("transport output is not a sequence of whole frames: at offset %d: % x", it.Start, all[it.Start:minInt(len(all), it.Start+40)])
		}
		out = append(out, it.Frame)
	}
	return out, ""
}

// ScanWire is the tolerant reader used where the scenario itself damages the output (a Write
// call that fails or blocks may leave a fragment of a frame on the wire): at every offset it
// tries a structurally complete frame whose checksum is right for the dialect (or, without a
// dialect entry, for no CRC_EXTRA check at all when anyID is set); anything else is skipped one
// byte at a time. Returns the frames and the number of skipped bytes.
func ScanWire(all []byte, anyID bool) ([]*ref.Frame, int) {
	var out []*ref.Frame
	skipped := 0
	for pos := 0; pos < len(all); {
		it, _ := ref.ParseOne(all[pos:])
		if it.Kind == ref.KindFrame {
			d := DefByID(it.Frame.ID)
			if (d != nil && it.Frame.ComputeChecksum(d.CRCExtra()) == it.Frame.Checksum) || (d == nil && anyID) {
				out = append(out, it.Frame)
				pos += it.End
				continue
			}
		}
		pos++
		skipped++
	}
	return out, skipped
}

// Concat joins the accepted writes of a transport.
func Concat(writes [][]byte) []byte {
	var all []byte
	for _, w := range writes {
		all = append(all, w...)
	}
	return all
}

// WireTimed parses everything a fake connection accepted as one byte stream (a frame may
// reach the transport in any number of Write calls) and gives every frame the virtual time of
// the Write call that carried its first byte.
func WireTimed(c *vnet.FakeConn) ([]time.Duration, []*ref.Frame, string) {
	var all []byte
	var startOff []int
	var startAt []time.Duration
	off := 0
	for _, io := range c.IO {
		if io.Write && io.Done {
			startOff = append(startOff, off)
			startAt = append(startAt, io.At.Sub(vmc.Epoch))
			off += io.N
		}
	}
	for _, w := range c.Written {
		all = append(all, w...)
	}
	var out []*ref.Frame
	var ts []time.Duration
	for _, it := range ref.ParseStream(all) {
		if it.Kind != ref.KindFrame {
			return ts, out, fmt.Sprintf("transport output is not a sequence of whole frames: at offset %d: % x", it.Start, all[it.Start:minInt(len(all), it.Start+40)])
		}
		out = append(out, it.Frame)
		at := time.Duration(-1)
		for i, o := range startOff {
			if o <= it.Start {
				at = startAt[i]
			}
		}
		ts = append(ts, at)
	}
	return ts, out, ""
}

func minInt(a, b int) int {
	if a < b {
		return a
	}
	return b
}

// CheckOriginated verifies frames originated by the node on one link: identity, version,
// flags, checksum, gapless sequence numbers, signature (C09 / C06 node clauses). Frames whose
// (sys,comp) differ from the node's are forwarded frames and are skipped.
//
// The link id is whatever the channel chose when it was set up (the statement does not say
// how): the oracle requires one constant value on all signed frames of the link; the linkID
// argument is no longer compared.
func CheckOriginated(frames []*ref.Frame, sys, comp byte, v2 bool, key []byte, _ byte) string {
	seq := 0
	linkSeen, linkID := false, byte(0)
	for i, f := range frames {
		if f.Sys != sys || f.Comp != comp {
			continue
		}
		if f.V2 != v2 {
			return fmt.Sprintf("frame %d: wrong protocol version on the wire", i)
		}
		if f.Compat != 0 {
			return fmt.Sprintf("frame %d: compat flags %d", i, f.Compat)
		}
		if f.Seq != byte(seq) {
			return fmt.Sprintf("originated frame %d on this link has sequence number %d, %d originated frames were emitted before", i, f.Seq, seq)
		}
		seq++
		d := DefByID(f.ID)
		if d == nil {
			return fmt.Sprintf("frame %d: id %d not in the dialect", i, f.ID)
		}
		if want := f.ComputeChecksum(d.CRCExtra()); want != f.Checksum {
			return fmt.Sprintf("frame %d: checksum %04x, reference %04x", i, f.Checksum, want)
		}
		if key != nil {
			if !f.Signed() || f.Incompat != 1 {
				return fmt.Sprintf("frame %d of a node with OutKey is not signed", i)
			}
			if !linkSeen {
				linkSeen, linkID = true, f.LinkID
			}
			if f.LinkID != linkID {
				return fmt.Sprintf("frame %d: link id %d, earlier frames of this link carry %d", i, f.LinkID, linkID)
			}
			if f.Sign(key) != f.Sig {
				return fmt.Sprintf("frame %d: signature does not verify under OutKey", i)
			}
		} else if f.V2 && f.Incompat != 0 {
			return fmt.Sprintf("frame %d: incompat flags %d without a key", i, f.Incompat)
		}
	}
	return ""
}

// Log is the observation log of one execution.
type Log struct {
	Events []string
	chans  map[*gomavlib.Channel]int
	Chans  []*gomavlib.Channel
}

// ChanIndex names channels c0, c1, ... in order of first appearance.
func (l *Log) ChanIndex(c *gomavlib.Channel) int {
	if l.chans == nil {
		l.chans = map[*gomavlib.Channel]int{}
	}
	if i, ok := l.chans[c]; ok {
		return i
	}
	i := len(l.chans)
	l.chans[c] = i
	l.Chans = append(l.Chans, c)
	return i
}

// Describe renders an event.
func (l *Log) Describe(e gomavlib.Event) string {
	switch ev := e.(type) {
	case *gomavlib.EventChannelOpen:
		return fmt.Sprintf("open c%d", l.ChanIndex(ev.Channel))
	case *gomavlib.EventChannelClose:
		return fmt.Sprintf("close c%d err=%v", l.ChanIndex(ev.Channel), ev.Error)
	case *gomavlib.EventFrame:
		return fmt.Sprintf("frame c%d seq=%d sys=%d id=%d", l.ChanIndex(ev.Channel), ev.Frame.GetSequenceNumber(), ev.SystemID(), ev.Message().GetID())
	case *gomavlib.EventParseError:
		return fmt.Sprintf("parse c%d", l.ChanIndex(ev.Channel))
	case *gomavlib.EventStreamRequested:
		return fmt.Sprintf("streamreq c%d sys=%d comp=%d", l.ChanIndex(ev.Channel), ev.SystemID, ev.ComponentID)
	}
	return fmt.Sprintf("%T", e)
}

// Consume drains events into the log until the event channel is closed or max events were
// taken (max < 0: no limit). onEvent (optional) is called for each event.
func (l *Log) Consume(n *gomavlib.Node, max int, onEvent func(gomavlib.Event)) (closed bool) {
	for k := 0; max < 0 || k < max; k++ {
		e, ok := n.Events().Recv2()
		if !ok {
			return true
		}
		l.Events = append(l.Events, l.Describe(e))
		if onEvent != nil {
			onEvent(e)
		}
	}
	return false
}

// ResetGlobals restores package-level state of gomavlib and the shims at the start of an
// execution.
func ResetGlobals() {
	vnet.ResetHooks()
	vrand.Next = 7
	gomavlib.VerifSetSerialOpenFunc(func(string, int) (io.ReadWriteCloser, error) {
		return nil, errors.New("no serial port in this scenario")
	})
}

// SerialScript installs a serial opener that hands out the given results in order; after the
// script is exhausted every attempt fails. The attempts are recorded with their virtual time.
type SerialScript struct {
	Conns    []*vnet.FakeConn // nil entry = failed attempt
	Attempts []time.Duration
	next     int
}

// Install installs the opener.
func (s *SerialScript) Install() {
	gomavlib.VerifSetSerialOpenFunc(func(string, int) (io.ReadWriteCloser, error) {
		vmc.Step("serial-open")
		s.Attempts = append(s.Attempts, time.Duration(vmc.NowNS()))
		if s.next >= len(s.Conns) {
			s.next++
			return nil, errors.New("serial: no such device")
		}
		c := s.Conns[s.next]
		s.next++
		if c == nil {
			return nil, errors.New("serial: open failed")
		}
		c.Handed = true
		return c, nil
	})
}

// DialScript installs a dialer: each attempt takes the next entry: a conn (success), nil
// (failure) or Pending (blocks until the dial context ends).
type DialScript struct {
	Results  []*vnet.FakeConn
	Pending  map[int]bool // attempt index -> connect stays pending until the context is done
	Attempts []time.Duration
	next     int
}

// Install installs the dial hook.
func (s *DialScript) Install() {
	vnet.DialHook = func(ctx vctx.Context, network, address string) (net.Conn, error) {
		vmc.Step("dial")
		i := s.next
		s.next++
		s.Attempts = append(s.Attempts, time.Duration(vmc.NowNS()))
		if err := ctx.Err(); err != nil {
			// a real dialer fails at once when its context has already ended
			return nil, err
		}
		if s.Pending[i] {
			ctx.Done().Recv()
			return nil, ctx.Err()
		}
		if i >= len(s.Results) || s.Results[i] == nil {
			return nil, errors.New("connect: connection refused")
		}
		s.Results[i].Handed = true
		return s.Results[i], nil
	}
}

// V2Key converts.
func V2Key(k []byte) *frame.V2Key {
	if k == nil {
		return nil
	}
	return frame.NewV2Key(k)
}
