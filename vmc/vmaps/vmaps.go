// Package vmaps replaces the iteration functions of "maps" in rewritten files: the order is the
// deterministic one of vmc.SortedKeys instead of Go's random order.
package vmaps

import (
	"iter"

	"github.com/bluenviron/gomavlib/v3/pkg/vmc"
)

// Keys is maps.Keys in deterministic order.
func Keys[Map ~map[K]V, K comparable, V any](m Map) iter.Seq[K] {
	return func(yield func(K) bool) {
		for _, k := range vmc.SortedKeys(map[K]V(m)) {
			if _, ok := m[k]; ok && !yield(k) {
				return
			}
		}
	}
}

// Values is maps.Values in deterministic order.
func Values[Map ~map[K]V, K comparable, V any](m Map) iter.Seq[V] {
	return func(yield func(V) bool) {
		for _, k := range vmc.SortedKeys(map[K]V(m)) {
			if v, ok := m[k]; ok && !yield(v) {
				return
			}
		}
	}
}

// All is maps.All in deterministic order.
func All[Map ~map[K]V, K comparable, V any](m Map) iter.Seq2[K, V] {
	return func(yield func(K, V) bool) {
		for _, k := range vmc.SortedKeys(map[K]V(m)) {
			if v, ok := m[k]; ok && !yield(k, v) {
				return
			}
		}
	}
}
