// Package vmc is the runtime of engine B: a controlled scheduler for the real gomavlib node.
// The rewriter (cmd/mcrewrite) turns channel operations, select, go statements and the
// sync / context / time / net imports of the root package into calls of this package, so
// that every source of nondeterminism is a recorded choice. This package is added to the
// gomavlib module as a virtual package (go build -overlay), /repo stays untouched.
package vmc

import (
	"fmt"
	"os"
	"runtime"
	"sort"
	"strings"
	"time"
	"unsafe"
)

// Thread is one controlled goroutine. It only runs while it holds the baton.
type Thread struct {
	ID   int
	Name string
	App  bool // spawned by the scenario (not by gomavlib code)

	wake    chan struct{}
	parked  bool // has published a pending operation
	done    bool
	fired   bool // pending operation was completed by a rendezvous partner
	urgent  bool // pending operation goes first in the canonical order once enabled
	what    string
	en      func() bool
	apply   func()
	exiting bool
	panicS  string // set by an apply that must panic in the thread (send on closed channel)

	// results of the last channel operation
	selIdx int
	val    any
	ok     bool

	waits []*waitReg // channel registrations of the pending select
	vc    []uint32
	rvc   rclock // exact happens-before clock (race detection)
}

type waitReg struct {
	c *chanCore
	w *waiter
}

// Choice is one recorded decision.
type Choice struct {
	N    int // number of alternatives
	Pick int // chosen alternative
	// Kind: KindSched = alternative i costs i deviations (i-th enabled thread in canonical
	// order); KindRace = a non-default alternative costs 1 deviation (which ready select case
	// fires, which rendezvous partner is taken); KindEnv = free (scripted environment
	// parameters such as the closing point or a chunk boundary: enumerated completely)
	Kind int
	What string
}

// Choice kinds.
const (
	KindSched = iota
	KindRace
	KindEnv
)

// CostOf is the deviation cost of taking alternative alt of a choice of this kind.
func CostOf(kind, alt int) int {
	switch kind {
	case KindSched:
		return alt
	case KindRace:
		if alt > 0 {
			return 1
		}
	}
	return 0
}

// Options configure one exploration.
type Options struct {
	Bound       int           // deviation budget
	Adversarial bool          // clock may fire while threads are enabled (costs a deviation)
	MaxSteps    int           // horizon in scheduler steps
	MaxTime     time.Duration // horizon in virtual time
	Record      bool          // keep the operation trace
	NoCache     bool
}

// Sched is the state of one execution.
type Sched struct {
	opt     Options
	threads []*Thread
	cur     *Thread
	prefix  []int
	Trace   []Choice
	steps   int
	used    int

	aborting bool
	End      string // done | quiescent | horizon | finish | panic | pruned
	PanicMsg string
	exited   chan int

	now    int64 // virtual nanoseconds since Epoch
	timers []*timer
	tseq   int

	Ops []string // operation trace when Record

	nextObj int
	regs    map[uintptr]int // registration ids of pointers by address (deterministic map order)
	regKeep []any
	fp      uint64
	pruned  bool

	clockO obj
	clockN int

	snap []ThreadInfo
	idle bool

	shadow    map[unsafe.Pointer]*shadow
	ranges    map[uintptr][]rangeRec
	rangeKeep []any
	rangeKept map[uintptr]bool
	Races     []RaceReport

	EnvData any // scenario scratch
}

// S is the scheduler of the running execution.
var S *Sched

// Epoch is virtual time zero.
var Epoch = time.Date(2026, 1, 1, 0, 0, 0, 0, time.UTC)

// Divergence is thrown when a replayed prefix does not fit the execution.
type Divergence struct{ Msg string }

func (s *Sched) choose(n int, kind int, what string) int {
	if n <= 1 {
		return 0
	}
	k := len(s.Trace)
	pick := 0
	if k < len(s.prefix) {
		pick = s.prefix[k]
		if pick >= n || pick < 0 {
			panic(Divergence{fmt.Sprintf("choice %d (%s): recorded pick %d but only %d alternatives", k, what, pick, n)})
		}
	}
	s.used += CostOf(kind, pick)
	s.Trace = append(s.Trace, Choice{N: n, Pick: pick, Kind: kind, What: what})
	return pick
}

func (t *Thread) enabled() bool {
	if t.done || !t.parked {
		return false
	}
	return t.fired || t.en()
}

// enabledList: canonical order = current thread first if still enabled, then the others in
// round-robin order of ids starting after the current one.
func (s *Sched) enabledList() []*Thread {
	var out []*Thread
	n := len(s.threads)
	start := 0
	for _, t := range s.threads {
		if t.urgent && t.enabled() {
			out = append(out, t)
		}
	}
	if s.cur != nil && s.cur.urgent {
		// listed above
	} else if s.cur != nil {
		if s.cur.enabled() {
			out = append(out, s.cur)
		}
	}
	if s.cur != nil {
		start = s.cur.ID + 1
	}
	for k := 0; k < n; k++ {
		t := s.threads[(start+k)%n]
		if t == s.cur || t.urgent {
			continue
		}
		if t.enabled() {
			out = append(out, t)
		}
	}
	return out
}

// pick selects the next thread (firing timers as the clock policy allows); nil = execution over.
func (s *Sched) pick() *Thread {
	for {
		s.steps++
		if s.opt.MaxSteps > 0 && s.steps > s.opt.MaxSteps {
			s.End = "horizon"
			return nil
		}
		if s.opt.MaxTime > 0 && time.Duration(s.now) > s.opt.MaxTime {
			s.End = "horizon"
			return nil
		}
		en := s.enabledList()
		haveTimer := s.nextTimer() != nil
		if len(en) == 0 {
			if haveTimer {
				s.fireTimer()
				continue
			}
			if !s.idle {
				// last chance for triggers waiting for the system to go idle
				s.idle = true
				continue
			}
			all := true
			for _, t := range s.threads {
				if !t.done {
					all = false
				}
			}
			if all {
				s.End = "done"
			} else {
				s.End = "quiescent"
			}
			return nil
		}
		n := len(en)
		// adversarial clock: firing the next timer while threads are runnable is a choice - unless
		// the timer lies beyond the horizon of the scenario (a 20-minute housekeeping ticker in a
		// 10-minute scenario): jumping there would only end the execution unfinished
		if nt := s.nextTimer(); s.opt.Adversarial && nt != nil && (s.opt.MaxTime == 0 || time.Duration(nt.when) <= s.opt.MaxTime) {
			n++
		}
		if n > 1 && s.cacheCut(en) {
			s.End = "pruned"
			return nil
		}
		i := s.choose(n, KindSched, "sched")
		if i == len(en) {
			s.fireTimer()
			continue
		}
		return en[i]
	}
}

// snapshot records the thread states at the moment the execution ends (before teardown).
func (s *Sched) snapshot() {
	if s.snap != nil {
		return
	}
	s.snap = []ThreadInfo{}
	for _, t := range s.threads {
		s.snap = append(s.snap, ThreadInfo{t.ID, t.Name, t.App, t.done, t.what})
	}
}

// Idle tells a trigger predicate that nothing else can run (no enabled thread, no timer).
func Idle() bool { return S.idle }

// next picks the next thread, applies its pending operation; nil when the execution is over.
func (s *Sched) next() *Thread {
	var nx *Thread
	func() {
		defer func() {
			if e := recover(); e != nil {
				if d, ok := e.(Divergence); ok {
					s.End = "divergence"
					s.PanicMsg = d.Msg
					nx = nil
					return
				}
				panic(e)
			}
		}()
		nx = s.pick()
	}()
	if nx == nil {
		s.snapshot()
		return nil
	}
	s.idle = false
	s.cur = nx
	nx.parked = false
	if !nx.fired && nx.apply != nil {
		nx.apply()
	}
	nx.fired = false
	if s.opt.Record {
		s.Ops = append(s.Ops, fmt.Sprintf("T%d(%s) %s", nx.ID, nx.Name, nx.what))
	}
	return nx
}

// dispatch hands the baton from the running thread self to the next thread.
func (s *Sched) dispatch(self *Thread) {
	nx := s.next()
	if nx == nil {
		// execution over: the driver tears the other threads down one by one
		s.aborting = true
		self.exiting = true
		runtime.Goexit()
	}
	if nx == self {
		return
	}
	nx.wake <- struct{}{}
	<-self.wake
	if s.aborting {
		self.exiting = true
		runtime.Goexit()
	}
}

// op publishes a pending operation of the running thread and yields to the scheduler.
func (s *Sched) op(what string, en func() bool, apply func()) {
	t := s.cur
	if s.aborting {
		// teardown: every operation unwinds: the first one the thread itself, one reached from a
		// deferred function that deferred function (a drain loop in a defer must not spin)
		t.exiting = true
		runtime.Goexit()
	}
	t.what, t.en, t.apply, t.parked = what, en, apply, true
	s.dispatch(t)
	if t.panicS != "" {
		p := t.panicS
		t.panicS = ""
		panic(p)
	}
}

func alwaysEnabled() bool { return true }

// spawn creates a thread; it starts parked with an always-enabled start operation.
func (s *Sched) spawn(name string, app bool, f func()) *Thread {
	t := &Thread{ID: len(s.threads), Name: name, App: app, wake: make(chan struct{}, 1)}
	s.threads = append(s.threads, t)
	t.what, t.en, t.parked = "start", alwaysEnabled, true
	if s.cur != nil {
		s.hbSpawn(s.cur, t)
		if RaceOn {
			t.rvc = s.raceRelease(s.cur)
		}
	}
	go func() {
		defer func() { s.exited <- t.ID }()
		<-t.wake
		if s.aborting {
			t.done = true
			return
		}
		normal := false
		defer func() {
			e := recover()
			t.done = true
			if s.aborting {
				return // teardown (Goexit or a panic in deferred code during teardown)
			}
			if !normal {
				if e == nil {
					// runtime.Goexit called by the code under test itself: treat as exit
				} else if d, ok := e.(Divergence); ok {
					s.End = "divergence"
					s.PanicMsg = d.Msg
					s.aborting = true
					return
				} else {
					buf := make([]byte, 8000)
					n := runtime.Stack(buf, false)
					s.End = "panic"
					s.PanicMsg = fmt.Sprintf("panic in thread T%d(%s): %v\n%s", t.ID, t.Name, e, trimStack(string(buf[:n])))
					s.snapshot()
					s.aborting = true
					return
				}
			}
			// normal exit: hand the baton over
			t.what = "exited"
			nx := s.next()
			if nx == nil {
				s.aborting = true
				return
			}
			nx.wake <- struct{}{}
		}()
		f()
		normal = true
	}()
	return t
}

func trimStack(st string) string {
	lines := strings.Split(st, "\n")
	var out []string
	for _, l := range lines {
		if strings.Contains(l, "runtime/panic.go") || strings.Contains(l, "vmc/sched.go") || strings.Contains(l, "runtime.gopanic") {
			continue
		}
		out = append(out, l)
		if len(out) > 24 {
			break
		}
	}
	return strings.Join(out, "\n")
}

// ---- public API used by rewritten code and scenarios

// Go starts a goroutine of the code under test.
func Go(f func()) { S.spawn("lib", false, f) }

// GoApp starts a scenario thread.
func GoApp(name string, f func()) { S.spawn(name, true, f) }

// Step is a scheduling point without effect.
func Step(what string) { S.op(what, alwaysEnabled, nil) }

// AwaitUrgent is Await whose thread is scheduled first (at no cost) as soon as pred holds: a
// scripted trigger ("after j steps of the system").
func AwaitUrgent(what string, pred func() bool) {
	t := S.cur
	t.urgent = true
	S.op(what, pred, func() { t.urgent = false })
}

// Steps is the number of scheduler steps of the running execution.
func Steps() int { return S.steps }

// LibThreadsDone tells whether every thread started by the code under test has exited.
func LibThreadsDone() bool {
	for _, t := range S.threads {
		if !t.App && !t.done {
			return false
		}
	}
	return true
}

func lastOp(s *Sched) string {
	if t := s.cur; t != nil {
		return fmt.Sprintf("T%d(%s) after %s", t.ID, t.Name, t.what)
	}
	return "?"
}

// InExecution: a thread of a running execution is executing (not package initialisation, not
// harness code between executions, not the teardown).
func InExecution() bool { return S != nil && S.cur != nil && !S.aborting }

// LibThreadsAliveNow names the library threads that have not ended yet.
func LibThreadsAliveNow() []string {
	var out []string
	for _, t := range S.threads {
		if !t.App && !t.done {
			out = append(out, fmt.Sprintf("T%d(%s) at %s", t.ID, t.Name, t.what))
		}
	}
	return out
}

// Await blocks until pred holds. pred must only read state that changes at scheduling points.
func Await(what string, pred func() bool) { S.op(what, pred, nil) }

// Choose is a free environment choice among n alternatives (enumerated exhaustively).
func Choose(n int, what string) int { return S.choose(n, KindEnv, what) }

// ChooseCost is an environment choice where alternative i costs i deviations.
func ChooseCost(n int, what string) int { return S.choose(n, KindSched, what) }

// Finish ends the execution from a scenario thread (the scenario reached its end).
func Finish() {
	s := S
	if s.aborting {
		return
	}
	s.End = "finish"
	s.snapshot()
	s.aborting = true
	s.cur.exiting = true
	runtime.Goexit()
}

// Now is the virtual time.
func Now() time.Time { return Epoch.Add(time.Duration(S.now)) }

// NowNS is the virtual time in ns since Epoch.
func NowNS() int64 { return S.now }

// ThreadInfo describes a thread at the end of an execution.
type ThreadInfo struct {
	ID      int
	Name    string
	App     bool
	Done    bool
	Pending string
}

// Result is the outcome of one execution.
type Result struct {
	Trace    []Choice
	End      string
	PanicMsg string
	Steps    int
	Used     int
	Threads  []ThreadInfo
	Ops      []string
	NowNS    int64
	Races    []RaceReport
}

// Picks returns the choice list (for replay).
func (r *Result) Picks() []int {
	p := make([]int, len(r.Trace))
	for i, c := range r.Trace {
		p[i] = c.Pick
	}
	return p
}

// LibThreadsAlive lists threads of the code under test that have not exited.
func (r *Result) LibThreadsAlive() []string {
	var out []string
	for _, t := range r.Threads {
		if !t.App && !t.Done {
			out = append(out, fmt.Sprintf("T%d blocked at %s", t.ID, t.Pending))
		}
	}
	return out
}

type globalReset struct {
	pkg string
	idx int
	f   func()
	off bool
}

var (
	globalResets  []globalReset
	resetPkgOrder = map[string]int{}
	resetsSorted  bool
)

// RegisterReset registers (from the init functions the rewriter generates) one step of the
// re-initialisation of the package-level variables of a rewritten package: idx is the position
// of the variable's initialiser in the package's initialisation order (-1: no initialiser, the
// variable is zeroed). Every execution starts from the state of a fresh process; packages are
// reset in the order their init functions ran (dependencies first).
func RegisterReset(pkg string, idx int, f func()) {
	if _, ok := resetPkgOrder[pkg]; !ok {
		resetPkgOrder[pkg] = len(resetPkgOrder)
	}
	globalResets = append(globalResets, globalReset{pkg: pkg, idx: idx, f: f})
	resetsSorted = false
}

// Zero sets a variable to the zero value of its type.
func Zero[T any](p *T) {
	var z T
	*p = z
}

func runGlobalResets() {
	if !resetsSorted {
		sort.SliceStable(globalResets, func(i, j int) bool {
			a, b := globalResets[i], globalResets[j]
			if a.pkg != b.pkg {
				return resetPkgOrder[a.pkg] < resetPkgOrder[b.pkg]
			}
			return a.idx < b.idx
		})
		resetsSorted = true
	}
	for i := range globalResets {
		r := &globalResets[i]
		if r.off {
			continue
		}
		func() {
			// an initialiser that cannot be evaluated twice (it registers something process-wide:
			// expvar.NewInt, flag.String ...) keeps its first value from then on
			defer func() {
				if recover() != nil {
					r.off = true
				}
			}()
			r.f()
		}()
	}
}

// RunOnce executes body under the scheduler following prefix, default choices afterwards.
func RunOnce(prefix []int, opt Options, body func()) *Result {
	s := &Sched{opt: opt, prefix: prefix, exited: make(chan int, 4096), regs: map[uintptr]int{}}
	S = s
	runGlobalResets()
	if opt.MaxSteps == 0 {
		s.opt.MaxSteps = 200000
	}
	// watchdog: an execution takes milliseconds; one that makes no step for minutes sits in a real
	// blocking call outside the scheduler (a transport or clock the shims do not own)
	wdDone := make(chan struct{})
	defer close(wdDone)
	go func() {
		last, idle := -1, 0
		for {
			select {
			case <-wdDone:
				return
			case <-time.After(20 * time.Second):
			}
			if s.steps == last {
				idle++
			} else {
				last, idle = s.steps, 0
			}
			if idle >= 9 {
				fmt.Fprintf(os.Stderr, "MACHINERY-ERROR: an execution made no scheduler step for 3 minutes: the code under test blocks in a real call outside the controlled scheduler (last operation: %s)\n", lastOp(s))
				os.Exit(2)
			}
		}
	}()
	s.spawn("main", true, body)
	t0 := s.threads[0]
	s.cur = t0
	t0.parked = false
	t0.wake <- struct{}{}
	gone := map[int]bool{}
	for {
		id := <-s.exited
		gone[id] = true
		if s.aborting {
			break
		}
	}
	// sequential teardown: release the remaining threads one at a time, so that their
	// deferred functions never run concurrently
	for i := 0; i < len(s.threads); i++ {
		t := s.threads[i]
		if gone[t.ID] {
			continue
		}
		s.cur = t
		t.parked = false
		t.wake <- struct{}{}
		for !gone[t.ID] {
			gone[<-s.exited] = true
		}
	}
	s.cur = nil // outside of an execution: the shims fall back to their real counterparts
	res := &Result{Trace: s.Trace, End: s.End, PanicMsg: s.PanicMsg, Steps: s.steps, Used: s.used, Ops: s.Ops, NowNS: s.now, Races: s.Races}
	s.snapshot()
	res.Threads = s.snap
	return res
}
