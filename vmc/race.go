package vmc

import (
	"fmt"
	"os"
	"strings"
	"unsafe"
)

// Happens-before race detection (C15). Exact Go memory-model edges, separate from the
// coarser per-object clocks of the state fingerprint:
//   send -> corresponding receive; receive -> completion of the send it unblocks
//   (unbuffered rendezvous, and k-th receive -> (k+cap)-th send); close -> receive-of-close;
//   Unlock -> later Lock; Done -> Wait return; go statement -> start of the goroutine;
//   timer creation -> timer delivery. Fake transports synchronise like an object guarded by
//   an internal lock (as net.Conn, os.File and io.Pipe do).
// Every instrumented access (struct fields of the rewritten packages, package variables,
// map operations - inserted by mcrewrite -race) is checked against the last write and the
// reads since then of the same address.

var debugSite = os.Getenv("VMC_RACE_DEBUG_SITE")

// RaceOn enables the tracker (set by the C15 driver before RunOnce).
var RaceOn bool

type rclock []uint32

func (a rclock) join(b rclock) rclock {
	for len(a) < len(b) {
		a = append(a, 0)
	}
	for i, v := range b {
		if v > a[i] {
			a[i] = v
		}
	}
	return a
}

func (a rclock) copyOf() rclock { return append(rclock{}, a...) }

// hbBefore: event (tid, c) happens-before the thread whose clock is vc
func hbBefore(tid int, c uint32, vc rclock) bool {
	return tid < len(vc) && c <= vc[tid]
}

func (t *Thread) tick() {
	for len(t.rvc) <= t.ID {
		t.rvc = append(t.rvc, 0)
	}
	t.rvc[t.ID]++
}

type access struct {
	tid  int
	c    uint32
	site string
}

type shadow struct {
	keep  any // keeps the object alive so that its address is not reused
	write access
	hasW  bool
	reads []access
}

// rangeRec is one recorded access to the bytes [lo, hi) (struct fields, package variables and
// slice / array elements all live in one byte-addressed shadow, so that a copy into a buffer
// conflicts with an indexed read of it).
type rangeRec struct {
	lo, hi uintptr
	acc    access
	write  bool
}

const lineShift = 6 // 64-byte buckets

// RaceReport describes one data race.
type RaceReport struct {
	Addr   string
	A, B   string // sites
	AW, BW bool   // which are writes
	TA, TB int
}

func (r RaceReport) String() string {
	k := func(w bool) string {
		if w {
			return "write"
		}
		return "read"
	}
	return fmt.Sprintf("data race: %s at %s by T%d and %s at %s by T%d are not ordered by happens-before", k(r.AW), r.A, r.TA, k(r.BW), r.B, r.TB)
}

// raceRange records an access to [p, p+size) and reports conflicts with earlier accesses to
// overlapping bytes by other threads that are not ordered before it.
func (s *Sched) raceRange(p unsafe.Pointer, size uintptr, keep any, write bool, site string) {
	if !RaceOn || s == nil || s.aborting || s.cur == nil || size == 0 || p == nil {
		return
	}
	t := s.cur
	if len(t.rvc) <= t.ID {
		t.tick()
	}
	if s.ranges == nil {
		s.ranges = map[uintptr][]rangeRec{}
	}
	lo := uintptr(p)
	hi := lo + size
	me := access{t.ID, t.rvc[t.ID], site}
	if debugSite != "" && strings.Contains(site, debugSite) {
		if f, err := os.OpenFile("/tmp/vmc-race-debug.log", os.O_APPEND|os.O_CREATE|os.O_WRONLY, 0o644); err == nil {
			fmt.Fprintf(f, "RACEDBG T%d %s write=%v [%#x,%#x) clock=%v\n", t.ID, site, write, lo, hi, t.rvc)
			f.Close()
		}
	}
	if !s.rangeKept[lo] {
		// keeps the object alive until the end of the execution: its address is not reused
		if s.rangeKept == nil {
			s.rangeKept = map[uintptr]bool{}
		}
		s.rangeKept[lo] = true
		s.rangeKeep = append(s.rangeKeep, keep)
	}
	reported := false
	for line := lo >> lineShift; line <= (hi-1)>>lineShift; line++ {
		recs := s.ranges[line]
		out := recs[:0]
		// the part of the access that falls into this bucket
		blo, bhi := lo, hi
		if b := line << lineShift; blo < b {
			blo = b
		}
		if e := (line + 1) << lineShift; bhi > e {
			bhi = e
		}
		for _, r := range recs {
			overlap := r.lo < bhi && blo < r.hi
			if overlap && (write || r.write) && r.acc.tid != t.ID && !hbBefore(r.acc.tid, r.acc.c, t.rvc) && !reported {
				if len(s.Races) < 20 {
					s.Races = append(s.Races, RaceReport{Addr: fmt.Sprintf("%#x", blo), A: r.acc.site, AW: r.write, TA: r.acc.tid, B: site, BW: write, TB: t.ID})
				}
				reported = true
			}
			// a record is superseded when the new access covers it and either comes from the
			// same thread with at least the same strength, or is a write ordered after it
			covered := blo <= r.lo && r.hi <= bhi
			if covered && ((r.acc.tid == t.ID && (write || !r.write)) || (write && hbBefore(r.acc.tid, r.acc.c, t.rvc))) {
				continue
			}
			out = append(out, r)
		}
		s.ranges[line] = append(out, rangeRec{blo, bhi, me, write})
	}
}

func (s *Sched) raceAccess(p unsafe.Pointer, keep any, write bool, site string) {
	// (map headers: keyed by the map pointer, one byte wide)
	s.raceRange(p, 1, keep, write, site)
}

// R records a read of *p and returns p.
func R[T any](p *T, site string) *T {
	if RaceOn {
		S.raceRange(unsafe.Pointer(p), unsafe.Sizeof(*p), p, false, site)
	}
	return p
}

// W records a write of *p and returns p.
func W[T any](p *T, site string) *T {
	if RaceOn {
		S.raceRange(unsafe.Pointer(p), unsafe.Sizeof(*p), p, true, site)
	}
	return p
}

func sliceRange[T any](s []T) (unsafe.Pointer, uintptr) {
	if len(s) == 0 {
		return nil, 0
	}
	return unsafe.Pointer(&s[0]), uintptr(len(s)) * unsafe.Sizeof(s[0])
}

// RS records a read of all elements of s and returns s.
func RS[S ~[]T, T any](s S, site string) S {
	if RaceOn {
		p, n := sliceRange([]T(s))
		S_().raceRange(p, n, s, false, site)
	}
	return s
}

// WS records a write of all elements of s and returns s.
func WS[S ~[]T, T any](s S, site string) S {
	if RaceOn {
		p, n := sliceRange([]T(s))
		S_().raceRange(p, n, s, true, site)
	}
	return s
}

// RSn / WSn record a read / write of the first n elements of s (fixed-size accessors).
func RSn[D ~[]T, T any](s D, n int, site string) D {
	if RaceOn && len(s) >= n {
		RS(s[:n], site)
	}
	return s
}

// WSn records a write of the first n elements of s.
func WSn[D ~[]T, T any](s D, n int, site string) D {
	if RaceOn && len(s) >= n {
		WS(s[:n], site)
	}
	return s
}

// S_ returns the current scheduler (helper for generic functions whose type parameter is named S).
func S_() *Sched { return S }

// Copy is the builtin copy: writes the copied prefix of dst, reads that of src.
func Copy[D ~[]T, T any](dst D, src []T, site string) int {
	n := copy(dst, src)
	if RaceOn && n > 0 {
		RS(src[:n], site)
		WS(dst[:n], site)
	}
	return n
}

// CopyStr is copy(dst, string).
func CopyStr[D ~[]byte](dst D, src string, site string) int {
	n := copy(dst, src)
	if RaceOn && n > 0 {
		WS(dst[:n], site)
	}
	return n
}

// Clear is the builtin clear on a slice.
func Clear[D ~[]T, T any](s D, site string) {
	clear(s)
	if RaceOn {
		WS(s, site)
	}
}

// Appended records what res = append(old, ...) did: when the capacity sufficed the new elements
// were written into the (possibly shared) backing array behind the old length, otherwise the
// old elements were read.
func Appended[D ~[]T, T any](site string, old D, res D) D {
	if RaceOn && len(res) > len(old) {
		if cap(old) >= len(res) {
			WS(res[len(old):], site)
		} else {
			RS(old, site)
		}
	}
	return res
}

// Append is the builtin append: when the capacity suffices the new elements are written into
// the shared backing array behind the old length, otherwise the old elements are read.
func Append[D ~[]T, T any](site string, s D, e ...T) D {
	old := len(s)
	r := append(s, e...)
	if RaceOn && len(e) > 0 {
		if cap(s) >= old+len(e) {
			WS(r[old:], site)
		} else {
			RS(s, site)
		}
	}
	return r
}

// AppendStr is append(s, str...).
func AppendStr[D ~[]byte](site string, s D, e string) D {
	old := len(s)
	r := append(s, e...)
	if RaceOn && len(e) > 0 {
		if cap(s) >= old+len(e) {
			WS(r[old:], site)
		} else {
			RS(s, site)
		}
	}
	return r
}

func mapPtr[M any](m M) unsafe.Pointer { return *(*unsafe.Pointer)(unsafe.Pointer(&m)) }

// MR records a read of map m.
func MR[M ~map[K]V, K comparable, V any](m M, site string) M {
	if RaceOn && m != nil {
		S.raceAccess(mapPtr(m), m, false, site)
	}
	return m
}

// MW records a write of map m.
func MW[M ~map[K]V, K comparable, V any](m M, site string) M {
	if RaceOn && m != nil {
		S.raceAccess(mapPtr(m), m, true, site)
	}
	return m
}

// ---- synchronisation edges

// SyncObj is a lock-like synchronisation point for environment objects (fake transports).
type SyncObj struct{ vc rclock }

// Touch acquires and releases the object's clock for the running thread.
func (o *SyncObj) Touch() {
	s := S
	if !RaceOn || s == nil || s.cur == nil || s.aborting {
		return
	}
	t := s.cur
	t.rvc = t.rvc.join(o.vc)
	t.tick()
	o.vc = o.vc.join(t.rvc)
}

// Release publishes the running thread's clock on the object (sync.Pool Put, atomic store).
func (o *SyncObj) Release() {
	s := S
	if !RaceOn || s == nil || s.cur == nil || s.aborting {
		return
	}
	o.vc = o.vc.join(s.raceRelease(s.cur))
}

// Acquire joins the object's clock into the running thread's (sync.Pool Get, atomic load).
func (o *SyncObj) Acquire() {
	s := S
	if !RaceOn || s == nil || s.cur == nil || s.aborting {
		return
	}
	s.cur.rvc = s.cur.rvc.join(o.vc)
}

func (s *Sched) raceAcquire(t *Thread, vc rclock) {
	if RaceOn && t != nil {
		t.rvc = t.rvc.join(vc)
	}
}

// raceRelease returns a snapshot of the thread's clock and advances it.
func (s *Sched) raceRelease(t *Thread) rclock {
	if !RaceOn || t == nil {
		return nil
	}
	if len(t.rvc) <= t.ID {
		t.tick()
	}
	c := t.rvc.copyOf()
	t.tick()
	return c
}
