package vmc

import (
	"fmt"
	"unsafe"
)

// Happens-before race detection (C15). Exact Go memory-model edges, separate from the
// coarser per-object clocks of the state fingerprint:
//   send -> corresponding receive; receive -> completion of the send it unblocks
//   (unbuffered rendezvous, and k-th receive -> (k+cap)-th send); close -> receive-of-close;
//   Unlock -> later Lock; Done -> Wait return; go statement -> start of the goroutine;
//   timer creation -> timer delivery. Fake transports synchronise like an object guarded by
//   an internal lock (as net.Conn, os.File and io.Pipe do).
// Every instrumented access (struct fields of the rewritten packages, package variables,
// map operations - inserted by mcrewrite -race) is checked against the last write and the
// reads since then of the same address.

// RaceOn enables the tracker (set by the C15 driver before RunOnce).
var RaceOn bool

type rclock []uint32

func (a rclock) join(b rclock) rclock {
	for len(a) < len(b) {
		a = append(a, 0)
	}
	for i, v := range b {
		if v > a[i] {
			a[i] = v
		}
	}
	return a
}

func (a rclock) copyOf() rclock { return append(rclock{}, a...) }

// hbBefore: event (tid, c) happens-before the thread whose clock is vc
func hbBefore(tid int, c uint32, vc rclock) bool {
	return tid < len(vc) && c <= vc[tid]
}

func (t *Thread) tick() {
	for len(t.rvc) <= t.ID {
		t.rvc = append(t.rvc, 0)
	}
	t.rvc[t.ID]++
}

type access struct {
	tid  int
	c    uint32
	site string
}

type shadow struct {
	keep  any // keeps the object alive so that its address is not reused
	write access
	hasW  bool
	reads []access
}

// RaceReport describes one data race.
type RaceReport struct {
	Addr   string
	A, B   string // sites
	AW, BW bool   // which are writes
	TA, TB int
}

func (r RaceReport) String() string {
	k := func(w bool) string {
		if w {
			return "write"
		}
		return "read"
	}
	return fmt.Sprintf("data race: %s at %s by T%d and %s at %s by T%d are not ordered by happens-before", k(r.AW), r.A, r.TA, k(r.BW), r.B, r.TB)
}

func (s *Sched) raceAccess(p unsafe.Pointer, keep any, write bool, site string) {
	if !RaceOn || s == nil || s.aborting || s.cur == nil {
		return
	}
	t := s.cur
	if len(t.rvc) <= t.ID {
		t.tick()
	}
	if s.shadow == nil {
		s.shadow = map[unsafe.Pointer]*shadow{}
	}
	sh := s.shadow[p]
	if sh == nil {
		sh = &shadow{keep: keep}
		s.shadow[p] = sh
	}
	report := func(prev access, prevWrite bool) {
		if len(s.Races) < 20 {
			s.Races = append(s.Races, RaceReport{Addr: fmt.Sprintf("%p", p), A: prev.site, AW: prevWrite, TA: prev.tid, B: site, BW: write, TB: t.ID})
		}
	}
	if sh.hasW && sh.write.tid != t.ID && !hbBefore(sh.write.tid, sh.write.c, t.rvc) {
		report(sh.write, true)
	}
	me := access{t.ID, t.rvc[t.ID], site}
	if write {
		for _, r := range sh.reads {
			if r.tid != t.ID && !hbBefore(r.tid, r.c, t.rvc) {
				report(r, false)
			}
		}
		sh.write, sh.hasW = me, true
		sh.reads = sh.reads[:0]
		return
	}
	for i := range sh.reads {
		if sh.reads[i].tid == t.ID {
			sh.reads[i] = me
			return
		}
	}
	sh.reads = append(sh.reads, me)
}

// R records a read of *p and returns p.
func R[T any](p *T, site string) *T {
	if RaceOn {
		S.raceAccess(unsafe.Pointer(p), p, false, site)
	}
	return p
}

// W records a write of *p and returns p.
func W[T any](p *T, site string) *T {
	if RaceOn {
		S.raceAccess(unsafe.Pointer(p), p, true, site)
	}
	return p
}

func mapPtr[M any](m M) unsafe.Pointer { return *(*unsafe.Pointer)(unsafe.Pointer(&m)) }

// MR records a read of map m.
func MR[M ~map[K]V, K comparable, V any](m M, site string) M {
	if RaceOn && m != nil {
		S.raceAccess(mapPtr(m), m, false, site)
	}
	return m
}

// MW records a write of map m.
func MW[M ~map[K]V, K comparable, V any](m M, site string) M {
	if RaceOn && m != nil {
		S.raceAccess(mapPtr(m), m, true, site)
	}
	return m
}

// ---- synchronisation edges

// SyncObj is a lock-like synchronisation point for environment objects (fake transports).
type SyncObj struct{ vc rclock }

// Touch acquires and releases the object's clock for the running thread.
func (o *SyncObj) Touch() {
	s := S
	if !RaceOn || s == nil || s.cur == nil || s.aborting {
		return
	}
	t := s.cur
	t.rvc = t.rvc.join(o.vc)
	t.tick()
	o.vc = o.vc.join(t.rvc)
}

// Release publishes the running thread's clock on the object (sync.Pool Put, atomic store).
func (o *SyncObj) Release() {
	s := S
	if !RaceOn || s == nil || s.cur == nil || s.aborting {
		return
	}
	o.vc = o.vc.join(s.raceRelease(s.cur))
}

// Acquire joins the object's clock into the running thread's (sync.Pool Get, atomic load).
func (o *SyncObj) Acquire() {
	s := S
	if !RaceOn || s == nil || s.cur == nil || s.aborting {
		return
	}
	s.cur.rvc = s.cur.rvc.join(o.vc)
}

func (s *Sched) raceAcquire(t *Thread, vc rclock) {
	if RaceOn && t != nil {
		t.rvc = t.rvc.join(vc)
	}
}

// raceRelease returns a snapshot of the thread's clock and advances it.
func (s *Sched) raceRelease(t *Thread) rclock {
	if !RaceOn || t == nil {
		return nil
	}
	if len(t.rvc) <= t.ID {
		t.tick()
	}
	c := t.rvc.copyOf()
	t.tick()
	return c
}
