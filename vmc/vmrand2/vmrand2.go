// Package vmrand2 replaces the top-level functions of "math/rand/v2" in rewritten files by a
// generator that restarts with a fixed seed in every execution.
package vmrand2

import (
	"math/rand/v2"

	"github.com/bluenviron/gomavlib/v3/pkg/vmc"
)

var (
	cur *vmc.Sched
	r   = rand.New(rand.NewPCG(1, 2))
)

func g() *rand.Rand {
	if vmc.S != cur {
		cur = vmc.S
		r = rand.New(rand.NewPCG(1, 2))
	}
	return r
}

func Int() int                           { return g().Int() }
func IntN(n int) int                     { return g().IntN(n) }
func Int32() int32                       { return g().Int32() }
func Int32N(n int32) int32               { return g().Int32N(n) }
func Int64() int64                       { return g().Int64() }
func Int64N(n int64) int64               { return g().Int64N(n) }
func Uint() uint                         { return g().Uint() }
func UintN(n uint) uint                  { return g().UintN(n) }
func Uint32() uint32                     { return g().Uint32() }
func Uint32N(n uint32) uint32            { return g().Uint32N(n) }
func Uint64() uint64                     { return g().Uint64() }
func Uint64N(n uint64) uint64            { return g().Uint64N(n) }
func Float32() float32                   { return g().Float32() }
func Float64() float64                   { return g().Float64() }
func ExpFloat64() float64                { return g().ExpFloat64() }
func NormFloat64() float64               { return g().NormFloat64() }
func Perm(n int) []int                   { return g().Perm(n) }
func Shuffle(n int, swap func(i, j int)) { g().Shuffle(n, swap) }

// N is rand.N.
func N[Int interface {
	~int | ~int8 | ~int16 | ~int32 | ~int64 | ~uint | ~uint8 | ~uint16 | ~uint32 | ~uint64 | ~uintptr
}](n Int) Int {
	return Int(g().Uint64N(uint64(n)))
}
