// Package vnet replaces "net" in rewritten files. Pure functions and data types are the
// real ones; everything that would touch the network goes to hooks the scenario installs,
// and the fakes below are built on the controlled scheduler (blocking = vmc.Await).
package vnet

import (
	"context"
	"fmt"
	"net"
	"os"
	"syscall"
	"time"

	"github.com/bluenviron/gomavlib/v3/pkg/vmc"
	"github.com/bluenviron/gomavlib/v3/pkg/vmc/vctx"
)

// TCPConn / UDPConn: connections handed out by the dial hook and the fake listener are
// *FakeConn; code that asserts the concrete type of a dialled connection to tune it
// (SetNoDelay, SetKeepAlive ...) finds these methods, which have no effect on the fake.
type (
	TCPConn = FakeConn
	UDPConn = FakeConn
)

func (c *FakeConn) SetNoDelay(bool) error                        { return nil }
func (c *FakeConn) SetKeepAlive(bool) error                      { return nil }
func (c *FakeConn) SetKeepAlivePeriod(time.Duration) error       { return nil }
func (c *FakeConn) SetKeepAliveConfig(net.KeepAliveConfig) error { return nil }
func (c *FakeConn) SetLinger(int) error                          { return nil }
func (c *FakeConn) SetReadBuffer(int) error                      { return nil }
func (c *FakeConn) SetWriteBuffer(int) error                     { return nil }
func (c *FakeConn) CloseRead() error                             { return nil }
func (c *FakeConn) CloseWrite() error                            { return nil }

// Behaviour-free types.
type (
	Conn       = net.Conn
	Listener   = net.Listener
	PacketConn = net.PacketConn
	Addr       = net.Addr
	IP         = net.IP
	IPNet      = net.IPNet
	IPMask     = net.IPMask
	UDPAddr    = net.UDPAddr
	TCPAddr    = net.TCPAddr
	Interface  = net.Interface
	Error      = net.Error
)

// Pure functions.
var (
	SplitHostPort  = net.SplitHostPort
	JoinHostPort   = net.JoinHostPort
	ParseIP        = net.ParseIP
	ResolveUDPAddr = net.ResolveUDPAddr
	ResolveTCPAddr = net.ResolveTCPAddr
	IPv4           = net.IPv4
)

// Interfaces returns no interfaces (scenarios always give explicit local addresses).
func Interfaces() ([]Interface, error) { return nil, nil }

// Hooks installed by the scenario (reset at the start of every execution).
var (
	ListenHook       func(network, address string) (net.Listener, error)
	ListenPacketHook func(network, address string) (net.PacketConn, error)
	DialHook         func(ctx vctx.Context, network, address string) (net.Conn, error)
)

// ResetHooks clears the hooks.
func ResetHooks() { ListenHook, ListenPacketHook, DialHook = nil, nil, nil }

// Listen goes to the scenario.
func Listen(network, address string) (net.Listener, error) {
	if ListenHook == nil {
		panic("vnet: Listen without a scenario hook")
	}
	return ListenHook(network, address)
}

// ListenPacket goes to the scenario.
func ListenPacket(network, address string) (net.PacketConn, error) {
	if ListenPacketHook == nil {
		panic("vnet: ListenPacket without a scenario hook")
	}
	return ListenPacketHook(network, address)
}

// Dialer replaces net.Dialer.
type Dialer struct {
	Timeout  time.Duration
	Deadline time.Time
	// the remaining fields of net.Dialer are accepted and have no effect on the fakes
	LocalAddr       net.Addr
	DualStack       bool
	FallbackDelay   time.Duration
	KeepAlive       time.Duration
	KeepAliveConfig net.KeepAliveConfig
	Resolver        *net.Resolver
	Cancel          <-chan struct{}
	Control         func(network, address string, c syscall.RawConn) error
	ControlContext  func(ctx context.Context, network, address string, c syscall.RawConn) error
}

// DialContext goes to the scenario; Timeout / Deadline bound the attempt like net.Dialer's.
func (d *Dialer) DialContext(ctx vctx.Context, network, address string) (net.Conn, error) {
	if DialHook == nil {
		panic("vnet: Dial without a scenario hook")
	}
	if d != nil && d.Timeout > 0 {
		c, cancel := vctx.WithTimeout(ctx, d.Timeout)
		defer cancel()
		ctx = c
	}
	if d != nil && !d.Deadline.IsZero() {
		c, cancel := vctx.WithDeadline(ctx, d.Deadline)
		defer cancel()
		ctx = c
	}
	return DialHook(ctx, network, address)
}

// Dial goes to the scenario's dial hook.
func Dial(network, address string) (net.Conn, error) {
	return (&Dialer{}).DialContext(vctx.Background(), network, address)
}

// DialTimeout goes to the scenario's dial hook with a timeout context.
func DialTimeout(network, address string, timeout time.Duration) (net.Conn, error) {
	c, cancel := vctx.WithTimeout(vctx.Background(), timeout)
	defer cancel()
	return (&Dialer{}).DialContext(c, network, address)
}

// Dial goes to the scenario's dial hook.
func (d *Dialer) Dial(network, address string) (net.Conn, error) {
	return d.DialContext(vctx.Background(), network, address)
}

// ---- fakes

// ErrClosed is returned by operations on a closed fake.
var ErrClosed = net.ErrClosed

type timeoutErr struct{}

func (timeoutErr) Error() string     { return "i/o timeout" }
func (timeoutErr) Is(err error) bool { return err == os.ErrDeadlineExceeded }
func (timeoutErr) Timeout() bool     { return true }
func (timeoutErr) Temporary() bool   { return true }

// ErrTimeout is the deadline error of the fakes.
var ErrTimeout error = timeoutErr{}

type fakeAddr string

func (a fakeAddr) Network() string { return "fake" }
func (a fakeAddr) String() string  { return string(a) }

// DeadlineRec records one Set*Deadline call.
type DeadlineRec struct {
	Write bool
	At    time.Time // virtual now when set
	T     time.Time // deadline
}

// IORec records one Read/Write reaching the fake.
type IORec struct {
	Write    bool
	At       time.Time
	Deadline time.Time // deadline armed at that moment
	N        int
	Done     bool // write: the bytes were accepted (appended to Written)
}

// FakeConn is a scripted connection (also used as custom / serial transport).
type FakeConn struct {
	Name   string
	Remote string

	// read side: chunks delivered one per Read; when exhausted, InErr is returned if set,
	// otherwise Read blocks until Close (and then returns ErrClosed) or until more is fed
	In    [][]byte
	InErr error
	// InErrOnce: the error is returned by one Read only, later Reads block (a custom
	// transport is handed to a new channel again and again: keeps the scenario finite)
	InErrOnce bool

	// write side
	Written      [][]byte
	WriteFailAt  int // 1-based call that fails with WriteErr (0 = never)
	WriteErr     error
	WriteFailAll bool // every call from WriteFailAt on fails
	WriteFailN   int  // number of consecutive failing calls starting at WriteFailAt (0 = one)
	WriteBlockAt int  // 1-based call that blocks until the conn is closed (0 = never)
	// WriteStallAt: 1-based call that stalls for WriteStallFor of virtual time and then completes
	// (a device that drains: the stall is not interrupted by Close or a deadline; the bytes
	// leave the caller's buffer when the device accepts them, i.e. at completion)
	WriteStallAt  int
	WriteStallFor time.Duration
	WriteCalls    int
	InWrite       int // writers currently blocked inside Write

	CloseCalls int
	closed     bool
	Filtered   int // datagrams dropped by the listener's AcceptFilter before the connection existed
	// CloseDelay: Close unblocks pending I/O at once but takes this long (virtual time) to
	// return (a device that drains); CloseReturned counts the calls that have returned
	CloseDelay    time.Duration
	CloseReturned int
	// Handed is set when the connection was handed to the code under test (accepted, dialed,
	// opened): from then on somebody has to close it
	Handed bool

	rdl, wdl  time.Time
	Deadlines []DeadlineRec
	IO        []IORec
	// DeadlineFail makes Set*Deadline fail
	DeadlineFail error

	O vmc.EnvObj
}

// Feed appends input (called by a scenario thread; visible operation).
func (c *FakeConn) Feed(b []byte) {
	vmc.Step("feed " + c.Name)
	c.In = append(c.In, b)
	vmc.EnvEvent(&c.O, 1)
}

// FailRead makes the read side fail from now on once the script is exhausted.
func (c *FakeConn) FailRead(err error) {
	vmc.Step("failread " + c.Name)
	c.InErr = err
	vmc.EnvEvent(&c.O, 2)
}

func expired(dl time.Time) bool { return !dl.IsZero() && !vmc.Now().Before(dl) }

func (c *FakeConn) Read(p []byte) (int, error) {
	c.IO = append(c.IO, IORec{At: vmc.Now(), Deadline: c.rdl})
	vmc.Await("read "+c.Name, func() bool {
		return c.closed || len(c.In) > 0 || c.InErr != nil || expired(c.rdl)
	})
	defer vmc.EnvEvent(&c.O, 3)
	if c.closed {
		return 0, ErrClosed
	}
	if len(c.In) > 0 {
		n := copy(p, c.In[0])
		if n < len(c.In[0]) {
			c.In[0] = c.In[0][n:]
		} else {
			c.In = c.In[1:]
		}
		return n, nil
	}
	if c.InErr != nil {
		err := c.InErr
		if c.InErrOnce {
			c.InErr = nil
		}
		return 0, err
	}
	return 0, ErrTimeout
}

func (c *FakeConn) Write(p []byte) (int, error) {
	vmc.Step("write " + c.Name)
	c.WriteCalls++
	k := c.WriteCalls
	c.IO = append(c.IO, IORec{Write: true, At: vmc.Now(), Deadline: c.wdl, N: len(p)})
	rec := len(c.IO) - 1
	defer vmc.EnvEvent(&c.O, 4)
	if c.WriteStallAt != 0 && k == c.WriteStallAt && !c.closed {
		until := vmc.Now().Add(c.WriteStallFor)
		vmc.AddWake(until, "write-stall "+c.Name)
		c.InWrite++
		vmc.Await("write-stalled "+c.Name, func() bool { return !vmc.Now().Before(until) })
		c.InWrite--
		c.Written = append(c.Written, append([]byte{}, p...))
		c.IO[rec].Done = true
		return len(p), nil
	}
	if c.closed {
		return 0, ErrClosed
	}
	if c.WriteBlockAt != 0 && k >= c.WriteBlockAt {
		c.InWrite++
		vmc.Await("write-blocked "+c.Name, func() bool { return c.closed || expired(c.wdl) })
		c.InWrite--
		if c.closed {
			return 0, ErrClosed
		}
		return 0, ErrTimeout
	}
	if c.WriteFailAt != 0 && (k == c.WriteFailAt || (c.WriteFailAll && k > c.WriteFailAt) || (k > c.WriteFailAt && k < c.WriteFailAt+c.WriteFailN)) {
		return 0, c.WriteErr
	}
	c.Written = append(c.Written, append([]byte{}, p...))
	c.IO[rec].Done = true
	return len(p), nil
}

// Close closes the connection (every call is counted).
func (c *FakeConn) Close() error {
	vmc.Step("close " + c.Name)
	c.CloseCalls++
	defer vmc.EnvEvent(&c.O, 5)
	if c.closed {
		c.CloseReturned++
		return ErrClosed
	}
	c.closed = true
	if c.CloseDelay > 0 {
		vmc.EnvEvent(&c.O, 5)
		until := vmc.Now().Add(c.CloseDelay)
		vmc.AddWake(until, "close-delay "+c.Name)
		vmc.Await("closing "+c.Name, func() bool { return !vmc.Now().Before(until) })
	}
	c.CloseReturned++
	return nil
}

// IsClosed is for oracles.
func (c *FakeConn) IsClosed() bool { return c.closed }

// LocalAddr implements net.Conn.
func (c *FakeConn) LocalAddr() net.Addr { return fakeAddr("local") }

// RemoteAddr implements net.Conn.
func (c *FakeConn) RemoteAddr() net.Addr {
	if c.Remote == "" {
		return fakeAddr("peer:" + c.Name)
	}
	return fakeAddr(c.Remote)
}

// SetDeadline implements net.Conn.
func (c *FakeConn) SetDeadline(t time.Time) error {
	if err := c.SetReadDeadline(t); err != nil {
		return err
	}
	return c.SetWriteDeadline(t)
}

// SetReadDeadline implements net.Conn.
func (c *FakeConn) SetReadDeadline(t time.Time) error {
	c.Deadlines = append(c.Deadlines, DeadlineRec{false, vmc.Now(), t})
	if c.DeadlineFail != nil {
		return c.DeadlineFail
	}
	c.rdl = t
	if !t.IsZero() {
		vmc.AddWake(t, "read-deadline "+c.Name)
	}
	return nil
}

// SetWriteDeadline implements net.Conn.
func (c *FakeConn) SetWriteDeadline(t time.Time) error {
	c.Deadlines = append(c.Deadlines, DeadlineRec{true, vmc.Now(), t})
	if c.DeadlineFail != nil {
		return c.DeadlineFail
	}
	c.wdl = t
	if !t.IsZero() {
		vmc.AddWake(t, "write-deadline "+c.Name)
	}
	return nil
}

// FakeListener is a scripted listener.
type FakeListener struct {
	Name       string
	pending    []net.Conn
	Accepted   int
	CloseCalls int
	closed     bool
	// CloseDelay: Close unblocks pending I/O at once but takes this long (virtual time) to
	// return (a device that drains); CloseReturned counts the calls that have returned
	CloseDelay    time.Duration
	CloseReturned int
	AcceptErr     error // returned once by the next Accept when set
	// AcceptFilter (UDP listeners): a peer becomes a connection with its first datagram that
	// passes; datagrams that do not are dropped
	AcceptFilter func([]byte) bool
	O            vmc.EnvObj
}

// Connect makes a peer connect (scenario thread; visible operation).
// (AcceptFilter is set by the pion/udp shim from udp.ListenConfig.)
func (l *FakeListener) Connect(c net.Conn) {
	vmc.Step("connect " + l.Name)
	l.pending = append(l.pending, c)
	vmc.EnvEvent(&l.O, 1)
}

// acceptable: index of the first pending peer a connection can be made for now (-1: none).
// With an AcceptFilter (pion's UDP listener) a peer becomes a connection with its first
// datagram that passes the filter; datagrams that do not pass are dropped.
func (l *FakeListener) acceptable() int {
	for i, c := range l.pending {
		fc, ok := c.(*FakeConn)
		if !ok || l.AcceptFilter == nil {
			return i
		}
		for len(fc.In) > 0 && !l.AcceptFilter(fc.In[0]) {
			fc.In = fc.In[1:]
			fc.Filtered++
		}
		if len(fc.In) > 0 {
			return i
		}
	}
	return -1
}

// Accept implements net.Listener.
func (l *FakeListener) Accept() (net.Conn, error) {
	vmc.Await("accept "+l.Name, func() bool { return l.closed || l.acceptable() >= 0 || l.AcceptErr != nil })
	defer vmc.EnvEvent(&l.O, 2)
	if l.closed {
		return nil, ErrClosed
	}
	if l.AcceptErr != nil {
		err := l.AcceptErr
		l.AcceptErr = nil
		return nil, err
	}
	i := l.acceptable()
	c := l.pending[i]
	l.pending = append(l.pending[:i:i], l.pending[i+1:]...)
	l.Accepted++
	if fc, ok := c.(*FakeConn); ok {
		fc.Handed = true
	}
	return c, nil
}

// Close implements net.Listener.
func (l *FakeListener) Close() error {
	vmc.Step("close " + l.Name)
	l.CloseCalls++
	defer vmc.EnvEvent(&l.O, 3)
	if l.closed {
		return ErrClosed
	}
	l.closed = true
	return nil
}

// IsClosed is for oracles.
func (l *FakeListener) IsClosed() bool { return l.closed }

// Addr implements net.Listener.
func (l *FakeListener) Addr() net.Addr { return fakeAddr("listener:" + l.Name) }

// FakePacketConn is a scripted packet connection (UDP broadcast endpoint).
type FakePacketConn struct {
	Name       string
	In         [][]byte
	InErr      error // returned once by ReadFrom when the input is exhausted
	Written    [][]byte
	WrittenTo  []string
	CloseCalls int
	closed     bool
	// CloseDelay: Close unblocks pending I/O at once but takes this long (virtual time) to
	// return (a device that drains); CloseReturned counts the calls that have returned
	CloseDelay    time.Duration
	CloseReturned int
	wdl           time.Time
	Deadlines     []DeadlineRec
	O             vmc.EnvObj
}

// Feed appends an incoming packet.
func (c *FakePacketConn) Feed(b []byte) {
	vmc.Step("feed " + c.Name)
	c.In = append(c.In, b)
	vmc.EnvEvent(&c.O, 1)
}

// ReadFrom implements net.PacketConn.
func (c *FakePacketConn) ReadFrom(p []byte) (int, net.Addr, error) {
	vmc.Await("readfrom "+c.Name, func() bool { return c.closed || len(c.In) > 0 || c.InErr != nil })
	defer vmc.EnvEvent(&c.O, 2)
	if c.closed {
		return 0, nil, ErrClosed
	}
	if len(c.In) == 0 {
		err := c.InErr
		c.InErr = nil
		return 0, nil, err
	}
	n := copy(p, c.In[0])
	c.In = c.In[1:]
	return n, fakeAddr("sender"), nil
}

// WriteTo implements net.PacketConn.
func (c *FakePacketConn) WriteTo(p []byte, addr net.Addr) (int, error) {
	vmc.Step("writeto " + c.Name)
	defer vmc.EnvEvent(&c.O, 4)
	if c.closed {
		return 0, ErrClosed
	}
	c.Written = append(c.Written, append([]byte{}, p...))
	c.WrittenTo = append(c.WrittenTo, fmt.Sprint(addr))
	return len(p), nil
}

// Close implements net.PacketConn.
func (c *FakePacketConn) Close() error {
	vmc.Step("close " + c.Name)
	c.CloseCalls++
	defer vmc.EnvEvent(&c.O, 5)
	if c.closed {
		c.CloseReturned++
		return ErrClosed
	}
	c.closed = true
	if c.CloseDelay > 0 {
		vmc.EnvEvent(&c.O, 5)
		until := vmc.Now().Add(c.CloseDelay)
		vmc.AddWake(until, "close-delay "+c.Name)
		vmc.Await("closing "+c.Name, func() bool { return !vmc.Now().Before(until) })
	}
	c.CloseReturned++
	return nil
}

// IsClosed is for oracles.
func (c *FakePacketConn) IsClosed() bool { return c.closed }

// LocalAddr implements net.PacketConn.
func (c *FakePacketConn) LocalAddr() net.Addr { return fakeAddr("local") }

// SetDeadline implements net.PacketConn.
func (c *FakePacketConn) SetDeadline(t time.Time) error { return nil }

// SetReadDeadline implements net.PacketConn.
func (c *FakePacketConn) SetReadDeadline(t time.Time) error { return nil }

// SetWriteDeadline implements net.PacketConn.
func (c *FakePacketConn) SetWriteDeadline(t time.Time) error {
	c.Deadlines = append(c.Deadlines, DeadlineRec{true, vmc.Now(), t})
	c.wdl = t
	return nil
}
