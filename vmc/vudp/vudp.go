// Package vudp replaces github.com/pion/transport/v2/udp in rewritten files.
package vudp

import (
	"net"

	"github.com/bluenviron/gomavlib/v3/pkg/vmc/vnet"
)

// Listen goes to the scenario's listen hook.
func Listen(network string, laddr *net.UDPAddr) (net.Listener, error) {
	return vnet.Listen(network, laddr.String())
}
