// Package vudp replaces github.com/pion/transport/v{2,3,4}/udp in rewritten files.
package vudp

import (
	"net"

	"github.com/bluenviron/gomavlib/v3/pkg/vmc/vnet"
)

// Listen goes to the scenario's listen hook.
func Listen(network string, laddr *net.UDPAddr) (net.Listener, error) {
	return vnet.Listen(network, laddr.String())
}

// BatchIOConfig mirrors the pion type (no effect on the fakes).
type BatchIOConfig struct {
	Enable             bool
	ReadBatchSize      int
	WriteBatchSize     int
	WriteBatchInterval int64
}

// ListenConfig mirrors udp.ListenConfig: the accept filter is honoured by the fake listener, the
// sizes have no effect.
type ListenConfig struct {
	Backlog         int
	AcceptFilter    func([]byte) bool
	ReadBufferSize  int
	WriteBufferSize int
	Batch           BatchIOConfig
	LoggerFactory   any
}

// Listen goes to the scenario's listen hook.
func (lc *ListenConfig) Listen(network string, laddr *net.UDPAddr) (net.Listener, error) {
	l, err := vnet.Listen(network, laddr.String())
	if err != nil {
		return nil, err
	}
	if fl, ok := l.(*vnet.FakeListener); ok && lc != nil {
		fl.AcceptFilter = lc.AcceptFilter
	}
	return l, nil
}
