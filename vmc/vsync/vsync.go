// Package vsync replaces "sync" in rewritten files. The surface is deliberately wider than
// what gomavlib uses today (a later edit may introduce a pool, a Once, a RWMutex ...).
package vsync

import "github.com/bluenviron/gomavlib/v3/pkg/vmc"

// Mutex is the controlled mutex.
type Mutex = vmc.Mutex

// WaitGroup is the controlled wait group.
type WaitGroup = vmc.WaitGroup

// Locker is sync.Locker.
type Locker interface {
	Lock()
	Unlock()
}

// RWMutex is modelled as a plain mutex (readers exclude each other: fewer behaviours than
// the real one, never more).
type RWMutex struct{ m vmc.Mutex }

// Lock locks for writing.
func (rw *RWMutex) Lock() { rw.m.Lock() }

// Unlock unlocks.
func (rw *RWMutex) Unlock() { rw.m.Unlock() }

// RLock locks for reading.
func (rw *RWMutex) RLock() { rw.m.Lock() }

// RUnlock unlocks.
func (rw *RWMutex) RUnlock() { rw.m.Unlock() }

// RLocker returns a Locker for the read side.
func (rw *RWMutex) RLocker() Locker { return &rw.m }

// Once runs a function once.
type Once struct {
	m    vmc.Mutex
	done bool
}

// Do calls f if Do was not called before.
func (o *Once) Do(f func()) {
	if vmc.S == nil {
		if !o.done {
			o.done = true
			f()
		}
		return
	}
	o.m.Lock()
	defer o.m.Unlock()
	if !o.done {
		o.done = true
		f()
	}
}

// Pool is a free list: Get returns the most recently Put item (the real pool may also
// drop items or hand out older ones; handing back the hottest item is its common behaviour
// and the one that exposes use-after-Put).
type Pool struct {
	New   func() any
	items []any
}

// Get takes an item.
func (p *Pool) Get() any {
	if n := len(p.items); n > 0 {
		x := p.items[n-1]
		p.items = p.items[:n-1]
		return x
	}
	if p.New != nil {
		return p.New()
	}
	return nil
}

// Put returns an item.
func (p *Pool) Put(x any) {
	if x != nil {
		p.items = append(p.items, x)
	}
}

// Map is a mutex-protected map.
type Map struct {
	m vmc.Mutex
	d map[any]any
}

// Load returns the value stored for a key.
func (m *Map) Load(k any) (any, bool) {
	m.m.Lock()
	defer m.m.Unlock()
	v, ok := m.d[k]
	return v, ok
}

// Store sets the value for a key.
func (m *Map) Store(k, v any) {
	m.m.Lock()
	defer m.m.Unlock()
	if m.d == nil {
		m.d = map[any]any{}
	}
	m.d[k] = v
}

// LoadOrStore returns the existing value or stores the given one.
func (m *Map) LoadOrStore(k, v any) (any, bool) {
	m.m.Lock()
	defer m.m.Unlock()
	if m.d == nil {
		m.d = map[any]any{}
	}
	if old, ok := m.d[k]; ok {
		return old, true
	}
	m.d[k] = v
	return v, false
}

// Delete deletes a key.
func (m *Map) Delete(k any) {
	m.m.Lock()
	defer m.m.Unlock()
	delete(m.d, k)
}

// Range calls f for every entry (snapshot, deterministic insertion-independent order is not
// guaranteed by the real one either).
func (m *Map) Range(f func(k, v any) bool) {
	m.m.Lock()
	type kv struct{ k, v any }
	var l []kv
	for k, v := range m.d {
		l = append(l, kv{k, v})
	}
	m.m.Unlock()
	for _, e := range l {
		if !f(e.k, e.v) {
			return
		}
	}
}
