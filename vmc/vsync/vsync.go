// Package vsync replaces "sync" in rewritten files. The surface is deliberately wider than
// what gomavlib uses today (a later edit may introduce a pool, a Once, a RWMutex ...).
package vsync

import (
	"sync"

	"github.com/bluenviron/gomavlib/v3/pkg/vmc"
)

// Mutex is the controlled mutex.
type Mutex = vmc.Mutex

// WaitGroup is the controlled wait group.
type WaitGroup = vmc.WaitGroup

// Locker is sync.Locker.
type Locker interface {
	Lock()
	Unlock()
}

// RWMutex is the controlled readers-writer lock.
type RWMutex = vmc.RWMutex

// Once runs a function once.
type Once struct {
	m    vmc.Mutex
	done bool
}

// Do calls f if Do was not called before.
func (o *Once) Do(f func()) {
	o.m.Lock()
	defer o.m.Unlock()
	if !o.done {
		o.done = true
		f()
	}
}

// Pool is a free list: Get returns the most recently Put item (the real pool may also
// drop items or hand out older ones; handing back the hottest item is its common behaviour
// and the one that exposes use-after-Put).
type Pool struct {
	New   func() any
	real  sync.Pool // outside of an execution (no scheduler) the shim is the real pool
	items []any
	syncs []*vmc.SyncObj // "a call to Put(x) synchronizes before a call to Get returning that same value x"
}

// Get takes an item.
func (p *Pool) Get() any {
	if !vmc.InExecution() {
		if x := p.real.Get(); x != nil {
			return x
		}
		if p.New != nil {
			return p.New()
		}
		return nil
	}
	if n := len(p.items); n > 0 {
		x := p.items[n-1]
		p.items = p.items[:n-1]
		p.syncs[n-1].Acquire()
		p.syncs = p.syncs[:n-1]
		return x
	}
	if p.New != nil {
		return p.New()
	}
	return nil
}

// Put returns an item.
func (p *Pool) Put(x any) {
	if !vmc.InExecution() {
		p.real.Put(x)
		return
	}
	if x != nil {
		p.items = append(p.items, x)
		so := &vmc.SyncObj{}
		so.Release()
		p.syncs = append(p.syncs, so)
	}
}

// Map is a mutex-protected map; Range visits the entries in insertion order (the real one
// promises no order; a deterministic one keeps executions replayable).
type Map struct {
	m    vmc.Mutex
	d    map[any]any
	keys []any
}

func (m *Map) set(k, v any) {
	if m.d == nil {
		m.d = map[any]any{}
	}
	if _, ok := m.d[k]; !ok {
		m.keys = append(m.keys, k)
	}
	m.d[k] = v
}

func (m *Map) del(k any) {
	if _, ok := m.d[k]; ok {
		delete(m.d, k)
		for i, x := range m.keys {
			if x == k {
				m.keys = append(m.keys[:i:i], m.keys[i+1:]...)
				break
			}
		}
	}
}

// Load returns the value stored for a key.
func (m *Map) Load(k any) (any, bool) {
	m.m.Lock()
	defer m.m.Unlock()
	v, ok := m.d[k]
	return v, ok
}

// Store sets the value for a key.
func (m *Map) Store(k, v any) {
	m.m.Lock()
	defer m.m.Unlock()
	m.set(k, v)
}

// LoadOrStore returns the existing value or stores the given one.
func (m *Map) LoadOrStore(k, v any) (any, bool) {
	m.m.Lock()
	defer m.m.Unlock()
	if old, ok := m.d[k]; ok {
		return old, true
	}
	m.set(k, v)
	return v, false
}

// Delete deletes a key.
func (m *Map) Delete(k any) {
	m.m.Lock()
	defer m.m.Unlock()
	m.del(k)
}

// Range calls f for every entry of a snapshot, in insertion order.
func (m *Map) Range(f func(k, v any) bool) {
	m.m.Lock()
	type kv struct{ k, v any }
	var l []kv
	for _, k := range m.keys {
		l = append(l, kv{k, m.d[k]})
	}
	m.m.Unlock()
	for _, e := range l {
		if !f(e.k, e.v) {
			return
		}
	}
}

// LoadAndDelete deletes a key and returns the previous value.
func (m *Map) LoadAndDelete(k any) (any, bool) {
	m.m.Lock()
	defer m.m.Unlock()
	v, ok := m.d[k]
	m.del(k)
	return v, ok
}

// Swap stores a value and returns the previous one.
func (m *Map) Swap(k, v any) (any, bool) {
	m.m.Lock()
	defer m.m.Unlock()
	old, ok := m.d[k]
	m.set(k, v)
	return old, ok
}

// CompareAndSwap swaps if the stored value equals old.
func (m *Map) CompareAndSwap(k, old, nw any) bool {
	m.m.Lock()
	defer m.m.Unlock()
	if cur, ok := m.d[k]; ok && cur == old {
		m.d[k] = nw
		return true
	}
	return false
}

// CompareAndDelete deletes if the stored value equals old.
func (m *Map) CompareAndDelete(k, old any) bool {
	m.m.Lock()
	defer m.m.Unlock()
	if cur, ok := m.d[k]; ok && cur == old {
		m.del(k)
		return true
	}
	return false
}

// Clear deletes everything.
func (m *Map) Clear() {
	m.m.Lock()
	defer m.m.Unlock()
	m.d, m.keys = nil, nil
}

// OnceFunc is sync.OnceFunc.
func OnceFunc(f func()) func() {
	var o Once
	return func() { o.Do(f) }
}

// OnceValue is sync.OnceValue.
func OnceValue[T any](f func() T) func() T {
	var o Once
	var v T
	return func() T {
		o.Do(func() { v = f() })
		return v
	}
}

// OnceValues is sync.OnceValues.
func OnceValues[T1, T2 any](f func() (T1, T2)) func() (T1, T2) {
	var o Once
	var v1 T1
	var v2 T2
	return func() (T1, T2) {
		o.Do(func() { v1, v2 = f() })
		return v1, v2
	}
}

// Cond is sync.Cond on the controlled scheduler: Wait releases L, blocks until a Signal /
// Broadcast issued after it started waiting, and takes L again.
type Cond struct {
	L       Locker
	waiters []*condWaiter
}

type condWaiter struct {
	woken *vmc.Chan[struct{}]
}

// NewCond is sync.NewCond.
func NewCond(l Locker) *Cond { return &Cond{L: l} }

// Wait is sync.Cond.Wait.
func (c *Cond) Wait() {
	w := &condWaiter{woken: vmc.NewChan[struct{}](1)}
	c.waiters = append(c.waiters, w)
	c.L.Unlock()
	w.woken.Recv()
	c.L.Lock()
}

// Signal wakes the longest waiting goroutine, if any.
func (c *Cond) Signal() {
	if len(c.waiters) > 0 {
		w := c.waiters[0]
		c.waiters = c.waiters[1:]
		w.woken.Send(struct{}{})
	}
}

// Broadcast wakes all waiting goroutines.
func (c *Cond) Broadcast() {
	ws := c.waiters
	c.waiters = nil
	for _, w := range ws {
		w.woken.Send(struct{}{})
	}
}
