// Package vsync replaces "sync" in rewritten files.
package vsync

import "github.com/bluenviron/gomavlib/v3/pkg/vmc"

// Mutex is the controlled mutex.
type Mutex = vmc.Mutex

// WaitGroup is the controlled wait group.
type WaitGroup = vmc.WaitGroup
