// Package vtime replaces "time" in rewritten files: one virtual clock.
package vtime

import (
	"time"

	"github.com/bluenviron/gomavlib/v3/pkg/vmc"
)

// Aliases of behaviour-free types and constants.
type (
	Duration = time.Duration
	Time     = time.Time
	Month    = time.Month
	Location = time.Location
)

// Constants.
const (
	Nanosecond  = time.Nanosecond
	Microsecond = time.Microsecond
	Millisecond = time.Millisecond
	Second      = time.Second
	Minute      = time.Minute
	Hour        = time.Hour
)

// UTC is time.UTC.
var UTC = time.UTC

// Date is time.Date.
func Date(year int, month Month, day, hour, min, sec, nsec int, loc *Location) Time {
	return time.Date(year, month, day, hour, min, sec, nsec, loc)
}

// Unix is time.Unix.
func Unix(sec, nsec int64) Time { return time.Unix(sec, nsec) }

// Now is the virtual now. Outside of an execution (package initialisation) it is the epoch.
func Now() Time {
	if vmc.S == nil {
		return vmc.Epoch
	}
	return vmc.Now()
}

// Since is Now().Sub(t).
func Since(t Time) Duration { return Now().Sub(t) }

// Until is t.Sub(Now()).
func Until(t Time) Duration { return t.Sub(Now()) }

// After fires once after d.
func After(d Duration) *vmc.Chan[Time] {
	c, _ := vmc.NewTimerChan(d, false, "After("+d.String()+")")
	return c
}

// Sleep blocks for d of virtual time.
func Sleep(d Duration) {
	c, _ := vmc.NewTimerChan(d, false, "Sleep("+d.String()+")")
	c.Recv()
}

// Ticker replaces time.Ticker.
type Ticker struct {
	C    *vmc.Chan[Time]
	stop func() bool
}

// NewTicker creates a ticker.
func NewTicker(d Duration) *Ticker {
	if d <= 0 {
		panic("non-positive interval for NewTicker")
	}
	c, stop := vmc.NewTimerChan(d, true, "Ticker("+d.String()+")")
	return &Ticker{C: c, stop: stop}
}

// Stop stops the ticker.
func (t *Ticker) Stop() { t.stop() }

// Reset restarts the ticker with a new period (delivering on the same channel).
func (t *Ticker) Reset(d Duration) {
	if d <= 0 {
		panic("non-positive interval for Ticker.Reset")
	}
	t.stop()
	t.stop = vmc.RearmTimerChan(t.C, d, true, "Ticker("+d.String()+")")
}

// Tick is NewTicker(d).C.
func Tick(d Duration) *vmc.Chan[Time] {
	if d <= 0 {
		return nil
	}
	return NewTicker(d).C
}

// Timer replaces time.Timer.
type Timer struct {
	C    *vmc.Chan[Time]
	stop func() bool
	f    func()
}

// NewTimer creates a timer.
func NewTimer(d Duration) *Timer {
	c, stop := vmc.NewTimerChan(d, false, "Timer("+d.String()+")")
	return &Timer{C: c, stop: stop}
}

// Stop stops the timer.
func (t *Timer) Stop() bool { return t.stop() }

// Reset re-arms the timer; reports whether it had been active.
func (t *Timer) Reset(d Duration) bool {
	was := t.stop()
	if t.C != nil {
		t.stop = vmc.RearmTimerChan(t.C, d, false, "Timer("+d.String()+")")
	} else if t.f != nil {
		t.stop = vmc.AfterFuncThread(d, "AfterFunc("+d.String()+")", t.f)
	}
	return was
}

// AfterFunc runs f in its own goroutine after d.
func AfterFunc(d Duration, f func()) *Timer {
	return &Timer{f: f, stop: vmc.AfterFuncThread(d, "AfterFunc("+d.String()+")", f)}
}
