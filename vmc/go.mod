module vmcsrc

go 1.21
