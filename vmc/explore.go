package vmc

import (
	"fmt"
	"time"
)

// Stats summarises an exploration.
type Stats struct {
	Executions  int
	Steps       int // scheduler steps = transitions
	Pruned      int
	States      int // distinct cache keys (0 when the cache is off)
	MaxTrace    int
	Outcomes    map[string]int
	Capped      bool // deadline hit: not exhaustive for this bound
	Divergences int
}

// Explorer enumerates all executions of body whose total deviation cost is <= Bound.
type Explorer struct {
	Opt  Options
	Body func()
	// Check is called after every execution; a non-empty string is a violation.
	Check func(r *Result) string
	// Outcome summarises an execution (distinct outcomes are counted).
	Outcome  func(r *Result) string
	Deadline time.Time
	// Shard/NShards: only level-1 subtrees with index%NShards == Shard are explored (the root
	// execution itself belongs to shard 0).
	Shard, NShards int
	// OnViolation receives the choice list and the problem; return false to stop.
	OnViolation func(picks []int, problem string, r *Result) bool

	Stats   Stats
	stopped bool
	level1  int
}

// Run explores.
func (e *Explorer) Run() {
	if e.NShards == 0 {
		e.NShards = 1
	}
	e.Stats.Outcomes = map[string]int{}
	if !e.Opt.NoCache {
		ResetCache()
	} else {
		cache = nil
	}
	e.explore(nil, 0)
	if cache != nil {
		e.Stats.States = len(cache)
	}
}

func (e *Explorer) explore(prefix []int, depth int) {
	if e.stopped {
		return
	}
	if !e.Deadline.IsZero() && time.Now().After(e.Deadline) {
		e.Stats.Capped = true
		e.stopped = true
		return
	}
	r := RunOnce(prefix, e.Opt, e.Body)
	skipRoot := depth == 0 && e.Shard != 0
	if !skipRoot {
		e.Stats.Executions++
		e.Stats.Steps += r.Steps
		if len(r.Trace) > e.Stats.MaxTrace {
			e.Stats.MaxTrace = len(r.Trace)
		}
	}
	switch r.End {
	case "divergence":
		e.Stats.Divergences++
		if e.OnViolation != nil {
			e.OnViolation(r.Picks(), "MACHINERY: replay divergence: "+r.PanicMsg, r)
		}
		e.stopped = true
		return
	case "pruned":
		e.Stats.Pruned++
	default:
		if !skipRoot {
			if e.Outcome != nil {
				e.Stats.Outcomes[e.Outcome(r)]++
			}
			if p := e.Check(r); p != "" {
				if e.OnViolation == nil || !e.OnViolation(r.Picks(), p, r) {
					e.stopped = true
					return
				}
			}
		}
	}
	used := 0
	for i, c := range r.Trace {
		if i >= len(prefix) {
			for alt := 1; alt < c.N; alt++ {
				cost := used + CostOf(c.Kind, alt)
				if cost > e.Opt.Bound {
					break
				}
				if depth == 0 {
					k := e.level1
					e.level1++
					if k%e.NShards != e.Shard {
						continue
					}
				}
				np := make([]int, i+1)
				for j := 0; j < i; j++ {
					np[j] = r.Trace[j].Pick
				}
				np[i] = alt
				e.explore(np, depth+1)
				if e.stopped {
					return
				}
			}
		}
		used += CostOf(c.Kind, c.Pick)
	}
}

// FormatTrace renders a result for a replay report.
func FormatTrace(r *Result) string {
	s := fmt.Sprintf("end=%s steps=%d deviations=%d virtual=%v\n", r.End, r.Steps, r.Used, time.Duration(r.NowNS))
	for _, o := range r.Ops {
		s += "  " + o + "\n"
	}
	for _, t := range r.Threads {
		if !t.Done {
			s += fmt.Sprintf("  thread T%d(%s) not finished, pending: %s\n", t.ID, t.Name, t.Pending)
		}
	}
	if r.PanicMsg != "" {
		s += r.PanicMsg + "\n"
	}
	return s
}
