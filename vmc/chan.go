package vmc

import "fmt"

type waiter struct {
	t    *Thread
	idx  int
	send bool
	val  any
	vc   rclock // race mode: clock of a pending sender at publication time
}

type chanCore struct {
	id      int
	cap     int
	buf     []any
	bufVC   []rclock // race mode: clock of the sender of each buffered item
	recvVC  []rclock // race mode: clocks of completed receives (k-th receive -> (k+cap)-th send)
	nsend   int
	closeVC rclock
	closed  bool
	recvq   []*waiter
	sendq   []*waiter
	obj
}

// Chan is the controlled replacement of `chan T`.
type Chan[T any] struct{ c chanCore }

// NewChan replaces make(chan T, n).
func NewChan[T any](n int) *Chan[T] {
	c := &Chan[T]{}
	c.c.cap = n
	if S != nil { // (a channel made at package initialisation is made again when an execution starts)
		S.nextObj++
		c.c.id = S.nextObj
	}
	return c
}

func (c *Chan[T]) core() *chanCore {
	if c == nil {
		return nil
	}
	return &c.c
}

// Case is one case of a select.
type Case interface{ kase() *kase }

type kase struct {
	c    *chanCore
	send bool
	val  any
	// results
	rval any
	rok  bool
}

// RecvCase is a receive case with typed result accessors.
type RecvCase[T any] struct{ k kase }

func (r *RecvCase[T]) kase() *kase { return &r.k }

// Value returns the received value (zero when the channel was closed).
func (r *RecvCase[T]) Value() T {
	if r.k.rval == nil {
		var z T
		return z
	}
	return r.k.rval.(T)
}

// Ok reports whether the value was sent (false: channel closed).
func (r *RecvCase[T]) Ok() bool { return r.k.rok }

// SendCaseT is a send case.
type SendCaseT struct{ k kase }

func (r *SendCaseT) kase() *kase { return &r.k }

// RecvCase builds a receive case.
func (c *Chan[T]) RecvCase() *RecvCase[T] { return &RecvCase[T]{kase{c: c.core()}} }

// SendCase builds a send case.
func (c *Chan[T]) SendCase(v T) *SendCaseT { return &SendCaseT{kase{c: c.core(), send: true, val: v}} }

// eligible partners of a case for thread t: pending waiters of other threads not yet completed
func partners(q []*waiter, t *Thread) []*waiter {
	var out []*waiter
	for _, w := range q {
		if w.t != t && !w.t.fired && w.t.parked && !w.t.done {
			out = append(out, w)
		}
	}
	return out
}

func caseReady(k *kase, t *Thread) bool {
	c := k.c
	if c == nil {
		return false
	}
	if k.send {
		return c.closed || len(c.buf) < c.cap || len(partners(c.recvq, t)) > 0
	}
	return c.closed || len(c.buf) > 0 || len(partners(c.sendq, t)) > 0
}

func (t *Thread) unregister() {
	for _, r := range t.waits {
		q := &r.c.recvq
		if r.w.send {
			q = &r.c.sendq
		}
		out := (*q)[:0]
		for _, w := range *q {
			if w != r.w {
				out = append(out, w)
			}
		}
		*q = out
	}
	t.waits = nil
}

// complete finishes the pending select of partner thread w.t through its case w.idx.
func (s *Sched) complete(w *waiter, c *chanCore, val any, ok bool) {
	p := w.t
	p.selIdx, p.val, p.ok, p.fired = w.idx, val, ok, true
	p.unregister()
	s.hbEvent(p, []*obj{&c.obj}, w.idx)
}

// Select executes a select statement; returns the index of the fired case, -1 for default.
func Select(hasDefault bool, cases ...Case) int {
	s := S
	ks := make([]*kase, len(cases))
	for i, c := range cases {
		ks[i] = c.kase()
	}
	if !InExecution() {
		return selectOutside(hasDefault, ks)
	}
	t := s.cur
	if s.aborting {
		s.op("select", nil, nil)
		return -1
	}
	// register as a waiter so that partners can find this thread
	for i, k := range ks {
		if k.c == nil {
			continue
		}
		w := &waiter{t: t, idx: i, send: k.send, val: k.val}
		if k.send {
			k.c.sendq = append(k.c.sendq, w)
		} else {
			k.c.recvq = append(k.c.recvq, w)
		}
		t.waits = append(t.waits, &waitReg{k.c, w})
	}
	t.selIdx = -2
	what := describeSelect(hasDefault, ks)
	s.op(what, func() bool {
		if hasDefault {
			return true
		}
		for _, k := range ks {
			if caseReady(k, t) {
				return true
			}
		}
		return false
	}, func() {
		t.unregister()
		var ready []int
		for i, k := range ks {
			if caseReady(k, t) {
				ready = append(ready, i)
			}
		}
		if len(ready) == 0 {
			t.selIdx = -1
			s.hbEvent(t, objsOf(ks), -1)
			return
		}
		i := ready[s.choose(len(ready), KindRace, "select-case")]
		k := ks[i]
		c := k.c
		t.selIdx = i
		if k.send {
			if c.closed {
				t.panicS = "send on closed channel"
				s.hbEvent(t, objsOf(ks), i)
				return
			}
			if ps := partners(c.recvq, t); len(ps) > 0 && len(c.buf) == 0 {
				w := ps[s.choose(len(ps), KindRace, "recv-partner")]
				s.hbEvent(t, objsOf(ks), i)
				if RaceOn {
					// rendezvous: send -> receive, and receive -> completion of the send
					rv := w.t.rvc.copyOf()
					sv := s.raceRelease(t)
					s.raceAcquire(w.t, sv)
					w.t.tick()
					s.raceAcquire(t, rv)
				}
				s.complete(w, c, k.val, true)
				return
			}
			c.buf = append(c.buf, k.val)
			if RaceOn {
				if c.nsend >= c.cap && c.nsend-c.cap < len(c.recvVC) {
					s.raceAcquire(t, c.recvVC[c.nsend-c.cap])
				}
				c.nsend++
				c.bufVC = append(c.bufVC, s.raceRelease(t))
			}
			s.hbEvent(t, objsOf(ks), i)
			return
		}
		// receive
		if len(c.buf) > 0 {
			t.val, t.ok = c.buf[0], true
			c.buf = c.buf[1:]
			if RaceOn && len(c.bufVC) > 0 {
				s.raceAcquire(t, c.bufVC[0])
				c.bufVC = c.bufVC[1:]
				c.recvVC = append(c.recvVC, s.raceRelease(t))
			}
			s.hbEvent(t, objsOf(ks), i)
			// a blocked sender refills the buffer
			if ps := partners(c.sendq, t); len(ps) > 0 {
				w := ps[s.choose(len(ps), KindRace, "send-partner")]
				c.buf = append(c.buf, w.val)
				if RaceOn {
					if c.nsend >= c.cap && c.nsend-c.cap < len(c.recvVC) {
						s.raceAcquire(w.t, c.recvVC[c.nsend-c.cap])
					}
					c.nsend++
					c.bufVC = append(c.bufVC, s.raceRelease(w.t))
				}
				s.complete(w, c, nil, false)
			}
			return
		}
		if ps := partners(c.sendq, t); len(ps) > 0 {
			w := ps[s.choose(len(ps), KindRace, "send-partner")]
			t.val, t.ok = w.val, true
			if RaceOn {
				rv := s.raceRelease(t)
				sv := s.raceRelease(w.t)
				s.raceAcquire(t, sv)
				s.raceAcquire(w.t, rv)
			}
			s.hbEvent(t, objsOf(ks), i)
			s.complete(w, c, nil, false)
			return
		}
		// closed
		t.val, t.ok = nil, false
		if RaceOn {
			s.raceAcquire(t, c.closeVC)
		}
		s.hbEvent(t, objsOf(ks), i)
	})
	if s.aborting && t.selIdx == -2 {
		return -1
	}
	idx := t.selIdx
	if idx >= 0 && !ks[idx].send {
		ks[idx].rval, ks[idx].rok = t.val, t.ok
	}
	t.val = nil
	return idx
}

func objsOf(ks []*kase) []*obj {
	out := make([]*obj, 0, len(ks))
	for _, k := range ks {
		if k.c != nil {
			out = append(out, &k.c.obj)
		}
	}
	return out
}

func describeSelect(hasDefault bool, ks []*kase) string {
	if !S.opt.Record {
		return "select"
	}
	s := "select{"
	for _, k := range ks {
		if k.c == nil {
			s += "nil "
			continue
		}
		if k.send {
			s += fmt.Sprintf("ch%d<- ", k.c.id)
		} else {
			s += fmt.Sprintf("<-ch%d ", k.c.id)
		}
	}
	if hasDefault {
		s += "default"
	}
	return s + "}"
}

// selectOutside: channel operations outside of an execution (package initialisation, harness
// code between executions): only operations that complete at once are possible.
func selectOutside(hasDefault bool, ks []*kase) int {
	for i, k := range ks {
		if k.c == nil {
			continue
		}
		if k.send {
			if k.c.closed {
				panic("send on closed channel")
			}
			if len(k.c.buf) < k.c.cap {
				k.c.buf = append(k.c.buf, k.val)
				return i
			}
		} else if len(k.c.buf) > 0 {
			k.rval, k.rok, k.c.buf = k.c.buf[0], true, k.c.buf[1:]
			return i
		} else if k.c.closed {
			k.rval, k.rok = nil, false
			return i
		}
	}
	if hasDefault {
		return -1
	}
	panic(Divergence{"unsupported: a channel operation that would block outside of an execution (package initialisation)"})
}

// Send replaces `c <- v`.
func (c *Chan[T]) Send(v T) { Select(false, c.SendCase(v)) }

// Recv2 replaces `v, ok := <-c`.
func (c *Chan[T]) Recv2() (T, bool) {
	k := c.RecvCase()
	Select(false, k)
	return k.Value(), k.Ok()
}

// Recv replaces `<-c`.
func (c *Chan[T]) Recv() T {
	v, _ := c.Recv2()
	return v
}

// Close replaces close(c).
func (c *Chan[T]) Close() {
	s := S
	if c == nil {
		panic("close of nil channel")
	}
	if !InExecution() {
		if c.c.closed {
			panic("close of closed channel")
		}
		c.c.closed = true
		return
	}
	t := s.cur
	s.op(fmt.Sprintf("close ch%d", c.c.id), alwaysEnabled, func() {
		if c.c.closed {
			t.panicS = "close of closed channel"
			return
		}
		c.c.closed = true
		if RaceOn {
			c.c.closeVC = s.raceRelease(t)
		}
		s.hbEvent(t, []*obj{&c.c.obj}, 99)
	})
}

// Len replaces len(c).
func (c *Chan[T]) Len() int {
	if c == nil {
		return 0
	}
	return len(c.c.buf)
}

// Cap replaces cap(c).
func (c *Chan[T]) Cap() int {
	if c == nil {
		return 0
	}
	return c.c.cap
}

// IsClosed is for oracles.
func (c *Chan[T]) IsClosed() bool { return c != nil && c.c.closed }

// TrySendNB is used by timers: non-blocking send outside of any thread (clock context).
func (c *Chan[T]) trySend(v T) bool {
	if c.c.closed || len(c.c.buf) >= c.c.cap {
		return false
	}
	c.c.buf = append(c.c.buf, v)
	return true
}
