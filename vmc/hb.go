package vmc

// Happens-before bookkeeping for the state cache (see explore.go). Every completed
// operation is an event (thread, own index, result, vector clock); all operations on one
// object are totally ordered through a per-object clock, so that buffer contents are a
// function of the fingerprint. The fingerprint is the commutative sum of event hashes.

func join(a, b []uint32) []uint32 {
	for len(a) < len(b) {
		a = append(a, 0)
	}
	for i, v := range b {
		if v > a[i] {
			a[i] = v
		}
	}
	return a
}

func mix(h uint64, v uint64) uint64 {
	h ^= v + 0x9e3779b97f4a7c15 + (h << 6) + (h >> 2)
	h *= 0xff51afd7ed558ccd
	h ^= h >> 33
	return h
}

var clockObj obj

func (s *Sched) hbEvent(t *Thread, objs []*obj, res int) {
	for len(t.vc) <= t.ID {
		t.vc = append(t.vc, 0)
	}
	t.vc[t.ID]++
	for _, o := range objs {
		t.vc = join(t.vc, o.vc)
	}
	for _, o := range objs {
		o.vc = append(o.vc[:0], t.vc...)
	}
	h := mix(uint64(t.ID)+1, uint64(res+7))
	for i, v := range t.vc {
		if v != 0 {
			h = mix(h, uint64(i)<<32|uint64(v))
		}
	}
	s.fp += h
}

func (s *Sched) hbSpawn(parent, child *Thread) {
	s.hbEvent(parent, nil, 98)
	child.vc = append([]uint32{}, parent.vc...)
	prev := child.apply
	child.apply = func() {
		s.hbEvent(child, nil, 97) // thread start is an event: it publishes the first operation
		if prev != nil {
			prev()
		}
	}
}

// clock pseudo thread uses id 1<<20 in hashes
func (s *Sched) hbClock() {
	if s.cur != nil {
		s.hbEvent(s.cur, []*obj{&s.clockO}, 50)
	}
}

func (s *Sched) hbClockFire(seq int) {
	s.clockN++
	s.fp += mix(mix(0xC10C, uint64(seq)), uint64(s.clockN))
	s.clockO.vc = join(s.clockO.vc, nil)
}

func (s *Sched) hbClockObj(o *obj) {
	o.vc = join(o.vc, s.clockO.vc)
	s.fp += mix(0xC10D, uint64(s.clockN))
}

// EnvEvent records an operation of the running thread on an environment object (fake
// transport ...) with a result, for the fingerprint.
//
// Synchronisation (race tracker): a connection synchronises like net.Conn does: its read side
// and its write side are each guarded by their own lock (concurrent Reads are ordered, and so
// are concurrent Writes, but a Read and a Write are not ordered with each other), Close is
// ordered with both. res 4 = write-side operation, 5 = close, anything else = read side.
func EnvEvent(o *EnvObj, res int) {
	s := S
	if s.cur != nil && !s.aborting {
		s.hbEvent(s.cur, []*obj{&o.o}, 1000+res)
		switch res {
		case 4:
			o.wsync.Touch()
		case 5:
			o.sync.Touch()
			o.wsync.Touch()
		default:
			o.sync.Touch()
		}
	}
}

// EnvObj is the happens-before identity of a scenario object.
type EnvObj struct {
	o     obj
	sync  SyncObj // read side (and everything else)
	wsync SyncObj // write side
}

var cache map[uint64]int16

// ResetCache clears the state cache (new exploration).
func ResetCache() { cache = map[uint64]int16{} }

// cacheCut: true when this state was reached before with at least the same remaining budget.
func (s *Sched) cacheCut(en []*Thread) bool {
	if s.opt.NoCache || cache == nil || len(s.Trace) < len(s.prefix) {
		return false
	}
	curid := -1
	if s.cur != nil {
		curid = s.cur.ID
	}
	key := mix(s.fp, uint64(curid+2))
	for _, t := range s.threads {
		if t.parked && !t.done && (t.fired || t.what == "start") {
			key = mix(key, uint64(t.ID)*1000003+17)
		}
	}
	key = mix(key, uint64(s.now))
	rem := int16(s.opt.Bound - s.used)
	if v, ok := cache[key]; ok && v >= rem {
		return true
	}
	cache[key] = rem
	return false
}
