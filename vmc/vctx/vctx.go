// Package vctx replaces "context" in rewritten files.
package vctx

import (
	"context"
	"time"

	"github.com/bluenviron/gomavlib/v3/pkg/vmc"
)

// Canceled and DeadlineExceeded are the standard errors.
var (
	Canceled         = context.Canceled
	DeadlineExceeded = context.DeadlineExceeded
)

// CancelFunc cancels.
type CancelFunc = func()

// Context is the controlled context.
type Context interface {
	Done() *vmc.Chan[struct{}]
	Err() error
	Deadline() (time.Time, bool)
	Value(key any) any
}

type ctx struct {
	parent   *ctx
	done     *vmc.Chan[struct{}]
	err      error
	children []*ctx
	deadline time.Time
	hasDl    bool
	cause    error
	vparent  Context // value lookup continues here
	key, val any
	sync     vmc.SyncObj // cancel -> Err() returning non-nil (the real context guards err with a mutex)
}

// Value is context.Context.Value.
func (c *ctx) Value(key any) any {
	if c.key != nil && c.key == key {
		return c.val
	}
	if c.vparent != nil {
		return c.vparent.Value(key)
	}
	return nil
}

func (c *ctx) Done() *vmc.Chan[struct{}] { return c.done }
func (c *ctx) Err() error {
	if c.err != nil {
		c.sync.Acquire()
	}
	return c.err
}
func (c *ctx) Deadline() (time.Time, bool) { return c.deadline, c.hasDl }

// Background never ends.
func Background() Context { return &ctx{} }

// TODO never ends.
func TODO() Context { return &ctx{} }

func (c *ctx) cancel(err error) {
	if c.err != nil {
		return
	}
	c.err = err
	c.sync.Release()
	c.done.Close()
	for _, ch := range c.children {
		ch.cancel(err)
	}
}

// cancelQuiet is used from clock context (no running thread): closes without a scheduling point.
func (c *ctx) cancelQuiet(err error) {
	if c.err != nil {
		return
	}
	c.err = err
	vmc.CloseQuiet(c.done)
	for _, ch := range c.children {
		ch.cancelQuiet(err)
	}
}

func newChild(parent Context) *ctx {
	p, _ := parent.(*ctx)
	c := &ctx{parent: p, done: vmc.NewChan[struct{}](0), vparent: parent}
	if p != nil {
		if p.err != nil {
			c.err = p.err
			vmc.CloseQuiet(c.done)
		} else if p.done != nil {
			p.children = append(p.children, c)
		}
		c.deadline, c.hasDl = p.deadline, p.hasDl
	}
	return c
}

// WithCancel derives a cancellable context.
func WithCancel(parent Context) (Context, CancelFunc) {
	c := newChild(parent)
	return c, func() { c.cancel(Canceled) }
}

// WithTimeout derives a context cancelled after d of virtual time.
func WithTimeout(parent Context, d time.Duration) (Context, CancelFunc) {
	c := newChild(parent)
	dl := vmc.Now().Add(d)
	if !c.hasDl || dl.Before(c.deadline) {
		c.deadline, c.hasDl = dl, true
	}
	stop := vmc.AddTimerFunc(d, "ctx-timeout", func() { c.cancelQuiet(DeadlineExceeded) })
	return c, func() {
		stop()
		c.cancel(Canceled)
	}
}

// WithDeadline derives a context cancelled at t.
func WithDeadline(parent Context, t time.Time) (Context, CancelFunc) {
	return WithTimeout(parent, t.Sub(vmc.Now()))
}

// CancelCauseFunc cancels with a cause.
type CancelCauseFunc = func(cause error)

// WithCancelCause derives a cancellable context remembering the cause.
func WithCancelCause(parent Context) (Context, CancelCauseFunc) {
	c := newChild(parent)
	return c, func(cause error) {
		if c.cause == nil {
			c.cause = cause
		}
		c.cancel(Canceled)
	}
}

// Cause returns the cause of the cancellation.
func Cause(c Context) error {
	if x, ok := c.(*ctx); ok {
		for p := x; p != nil; p = p.parent {
			if p.cause != nil {
				return p.cause
			}
		}
	}
	return c.Err()
}

// WithValue derives a context carrying a value.
func WithValue(parent Context, key, val any) Context {
	c := newChild(parent)
	c.key, c.val = key, val
	return c
}

// WithoutCancel returns a context that is never cancelled but keeps the values.
func WithoutCancel(parent Context) Context { return &ctx{vparent: parent} }

// WithDeadlineCause is WithDeadline remembering a cause.
func WithDeadlineCause(parent Context, t time.Time, cause error) (Context, CancelFunc) {
	return WithTimeoutCause(parent, t.Sub(vmc.Now()), cause)
}

// WithTimeoutCause is WithTimeout remembering a cause.
func WithTimeoutCause(parent Context, d time.Duration, cause error) (Context, CancelFunc) {
	c := newChild(parent)
	dl := vmc.Now().Add(d)
	if !c.hasDl || dl.Before(c.deadline) {
		c.deadline, c.hasDl = dl, true
	}
	stop := vmc.AddTimerFunc(d, "ctx-timeout", func() {
		if c.err == nil && c.cause == nil {
			c.cause = cause
		}
		c.cancelQuiet(DeadlineExceeded)
	})
	return c, func() {
		stop()
		c.cancel(Canceled)
	}
}

// AfterFunc runs f in its own goroutine once the context is done; returns a stop function.
// The helper thread ends when the function has run or when stop is called (no thread lingers).
func AfterFunc(c Context, f func()) (stop func() bool) {
	stopped := false
	started := false
	stopCh := vmc.NewChan[struct{}](0)
	vmc.Go(func() {
		switch vmc.Select(false, c.Done().RecvCase(), stopCh.RecvCase()) {
		case 0:
			if !stopped {
				started = true
				f()
			}
		}
	})
	return func() bool {
		was := !stopped && !started
		if !stopped {
			stopped = true
			vmc.CloseQuiet(stopCh)
		}
		return was
	}
}
