package vmc

import (
	"fmt"
	"math"
	"reflect"
	"sort"
	"sync"
	"time"
	"unsafe"
)

// obj is the happens-before identity of a synchronisation object.
type obj struct {
	vc []uint32
}

// Mutex replaces sync.Mutex.
type Mutex struct {
	locked bool
	o      obj
	rvc    rclock
	real   sync.Mutex // outside of an execution (no scheduler) the shim is a real mutex
}

// Lock blocks until the mutex is free.
func (m *Mutex) Lock() {
	s := S
	if s == nil || s.cur == nil {
		m.real.Lock()
		m.locked = true
		return
	}
	t := s.cur
	s.op("lock", func() bool { return !m.locked }, func() {
		m.locked = true
		s.raceAcquire(t, m.rvc)
		s.hbEvent(t, []*obj{&m.o}, 1)
	})
}

// Unlock releases the mutex.
func (m *Mutex) Unlock() {
	s := S
	if s == nil || s.cur == nil {
		m.locked = false
		m.real.Unlock()
		return
	}
	t := s.cur
	s.op("unlock", alwaysEnabled, func() {
		if !m.locked {
			t.panicS = "sync: unlock of unlocked mutex"
			return
		}
		m.locked = false
		if RaceOn {
			m.rvc = m.rvc.join(s.raceRelease(t))
		}
		s.hbEvent(t, []*obj{&m.o}, 2)
	})
}

// RWMutex replaces sync.RWMutex: any number of readers or one writer. (No writer preference:
// a pending Lock does not block new readers, which only removes executions a correct program
// cannot rely on.)
type RWMutex struct {
	w    bool
	r    int
	o    obj
	rvc  rclock // released by writers (and readers): acquired by writers
	wvc  rclock // released by writers: acquired by readers
	real sync.RWMutex
}

// Lock takes the write lock.
func (m *RWMutex) Lock() {
	s := S
	if s == nil || s.cur == nil {
		m.real.Lock()
		m.w = true
		return
	}
	t := s.cur
	s.op("rw.lock", func() bool { return !m.w && m.r == 0 }, func() {
		m.w = true
		s.raceAcquire(t, m.rvc)
		s.hbEvent(t, []*obj{&m.o}, 1)
	})
}

// Unlock releases the write lock.
func (m *RWMutex) Unlock() {
	s := S
	if s == nil || s.cur == nil {
		m.w = false
		m.real.Unlock()
		return
	}
	t := s.cur
	s.op("rw.unlock", alwaysEnabled, func() {
		if !m.w {
			t.panicS = "sync: Unlock of unlocked RWMutex"
			return
		}
		m.w = false
		if RaceOn {
			c := s.raceRelease(t)
			m.rvc = m.rvc.join(c)
			m.wvc = m.wvc.join(c)
		}
		s.hbEvent(t, []*obj{&m.o}, 2)
	})
}

// RLock takes a read lock.
func (m *RWMutex) RLock() {
	s := S
	if s == nil || s.cur == nil {
		m.real.RLock()
		m.r++
		return
	}
	t := s.cur
	s.op("rw.rlock", func() bool { return !m.w }, func() {
		m.r++
		s.raceAcquire(t, m.wvc) // readers are ordered after writers only
		s.hbEvent(t, []*obj{&m.o}, 1)
	})
}

// RUnlock releases a read lock.
func (m *RWMutex) RUnlock() {
	s := S
	if s == nil || s.cur == nil {
		m.r--
		m.real.RUnlock()
		return
	}
	t := s.cur
	s.op("rw.runlock", alwaysEnabled, func() {
		if m.r == 0 {
			t.panicS = "sync: RUnlock of unlocked RWMutex"
			return
		}
		m.r--
		if RaceOn {
			m.rvc = m.rvc.join(s.raceRelease(t))
		}
		s.hbEvent(t, []*obj{&m.o}, 2)
	})
}

type rlocker struct{ m *RWMutex }

func (r rlocker) Lock()   { r.m.RLock() }
func (r rlocker) Unlock() { r.m.RUnlock() }

// RLocker is sync.RWMutex.RLocker.
func (m *RWMutex) RLocker() sync.Locker { return rlocker{m} }

// TryLock is sync.Mutex.TryLock (a scheduling point that never blocks).
func (m *Mutex) TryLock() bool {
	s := S
	if s == nil || s.cur == nil {
		if m.real.TryLock() {
			m.locked = true
			return true
		}
		return false
	}
	t := s.cur
	ok := false
	s.op("trylock", alwaysEnabled, func() {
		if !m.locked {
			m.locked, ok = true, true
			s.raceAcquire(t, m.rvc)
		}
		s.hbEvent(t, []*obj{&m.o}, 1)
	})
	return ok
}

// WaitGroup replaces sync.WaitGroup.
type WaitGroup struct {
	n    int
	o    obj
	rvc  rclock
	real sync.WaitGroup // outside of an execution
}

// Add adds delta.
func (w *WaitGroup) Add(delta int) {
	s := S
	if s == nil || s.cur == nil {
		w.real.Add(delta)
		return
	}
	t := s.cur
	s.op("wg.add", alwaysEnabled, func() {
		w.n += delta
		if RaceOn && delta < 0 {
			w.rvc = w.rvc.join(s.raceRelease(t))
		}
		if w.n < 0 {
			t.panicS = "sync: negative WaitGroup counter"
		}
		s.hbEvent(t, []*obj{&w.o}, 3)
	})
}

// Done decrements.
func (w *WaitGroup) Done() { w.Add(-1) }

// Wait blocks until the counter is zero.
func (w *WaitGroup) Wait() {
	s := S
	if s == nil || s.cur == nil {
		w.real.Wait()
		return
	}
	t := s.cur
	s.op("wg.wait", func() bool { return w.n == 0 }, func() {
		s.raceAcquire(t, w.rvc)
		s.hbEvent(t, []*obj{&w.o}, 4)
	})
}

// ---- timers

type timer struct {
	when    int64
	seq     int
	period  int64
	fire    func()
	stopped bool
	what    string
}

func (s *Sched) addTimer(d time.Duration, period time.Duration, what string, fire func()) *timer {
	if d < 0 {
		d = 0
	}
	if int64(d) > math.MaxInt64-s.now {
		d = time.Duration(math.MaxInt64 - s.now) // "never" (time.NewTimer(math.MaxInt64))
	}
	s.tseq++
	t := &timer{when: s.now + int64(d), seq: s.tseq, period: int64(period), fire: fire, what: what}
	s.timers = append(s.timers, t)
	s.hbClock()
	return t
}

func (s *Sched) nextTimer() *timer {
	var best *timer
	for _, t := range s.timers {
		if t.stopped {
			continue
		}
		if best == nil || t.when < best.when || (t.when == best.when && t.seq < best.seq) {
			best = t
		}
	}
	return best
}

func (s *Sched) fireTimer() {
	t := s.nextTimer()
	if t == nil {
		return
	}
	if t.when > s.now {
		s.now = t.when
	}
	if s.opt.Record {
		s.Ops = append(s.Ops, fmt.Sprintf("clock fires %s at %v", t.what, time.Duration(s.now)))
	}
	if t.period > 0 {
		t.when += t.period
	} else {
		t.stopped = true
		// drop stopped timers lazily
		out := s.timers[:0]
		for _, x := range s.timers {
			if !x.stopped {
				out = append(out, x)
			}
		}
		s.timers = out
	}
	s.hbClockFire(t.seq)
	t.fire()
}

// AddWake registers a no-op timer so that the clock can advance to a deadline somebody waits for.
func AddWake(at time.Time, what string) {
	d := at.Sub(Now())
	S.addTimer(d, 0, what, func() {})
}

// NewTimerChan creates a one-shot or periodic timer delivering on a channel of capacity 1.
func NewTimerChan(d time.Duration, periodic bool, what string) (*Chan[time.Time], func() bool) {
	c := NewChan[time.Time](1)
	var p time.Duration
	if periodic {
		p = d
	}
	var created rclock
	if RaceOn && S.cur != nil {
		created = S.raceRelease(S.cur)
	}
	t := S.addTimer(d, p, what, func() {
		if c.trySend(Now()) {
			if RaceOn {
				c.c.bufVC = append(c.c.bufVC, created)
				c.c.nsend++
			}
			S.hbClockObj(&c.c.obj)
		}
	})
	stop := func() bool {
		was := !t.stopped
		t.stopped = true
		S.hbClock()
		return was
	}
	return c, stop
}

// ---- deterministic map iteration

// Reg gives a pointer a deterministic creation-order id (used to order pointer-keyed maps).
// Registering the same pointer again keeps its first id.
func Reg[T any](p *T) *T {
	s := S
	if s != nil && p != nil {
		regAddr(s, uintptr(unsafe.Pointer(p)), unsafe.Pointer(p))
	}
	return p
}

func regAddr(s *Sched, a uintptr, keep unsafe.Pointer) {
	if _, ok := s.regs[a]; ok {
		return
	}
	s.nextObj++
	s.regs[a] = s.nextObj
	s.regKeep = append(s.regKeep, keep) // keeps the object alive: its address is not reused
}

// RegKey is applied to the key of every map insertion of the rewritten code: pointers inside
// the key (the key itself, struct fields, array elements, interface contents) that have no id
// yet get one now. Insertions happen in program order under the controlled scheduler, so the
// ids - and with them the iteration order SortedKeys produces - are a function of the schedule
// however the pointed-to object was allocated.
func RegKey[K any](k K) K {
	if S != nil {
		regWalk(S, reflect.ValueOf(&k).Elem())
	}
	return k
}

func regWalk(s *Sched, v reflect.Value) {
	switch v.Kind() {
	case reflect.Ptr, reflect.UnsafePointer, reflect.Chan, reflect.Func:
		if !v.IsNil() {
			regAddr(s, v.Pointer(), v.UnsafePointer())
		}
	case reflect.Struct:
		for i := 0; i < v.NumField(); i++ {
			regWalk(s, v.Field(i))
		}
	case reflect.Array:
		for i := 0; i < v.Len(); i++ {
			regWalk(s, v.Index(i))
		}
	case reflect.Interface:
		if !v.IsNil() {
			regWalk(s, v.Elem())
		}
	}
}

func keyOrder(v reflect.Value) string {
	switch v.Kind() {
	case reflect.Ptr, reflect.UnsafePointer, reflect.Chan:
		if v.IsNil() {
			return "p0"
		}
		// by address (works for unexported fields of struct keys, too)
		id, ok := S.regs[v.Pointer()]
		if !ok {
			// a limit of the machinery, not a property violation
			panic(Divergence{fmt.Sprintf("unsupported: map key of type %s is a pointer that was neither created by a composite literal / new() nor inserted into the map by rewritten code: iteration order would not be deterministic", v.Type())})
		}
		return fmt.Sprintf("p%012d", id)
	case reflect.Struct:
		s := ""
		for i := 0; i < v.NumField(); i++ {
			s += keyOrder(v.Field(i)) + "|"
		}
		return s
	case reflect.Array:
		s := "["
		for i := 0; i < v.Len(); i++ {
			s += keyOrder(v.Index(i)) + ","
		}
		return s + "]"
	case reflect.Bool:
		if v.Bool() {
			return "b1"
		}
		return "b0"
	case reflect.Int, reflect.Int8, reflect.Int16, reflect.Int32, reflect.Int64:
		return fmt.Sprintf("i%020d", uint64(v.Int())+1<<63)
	case reflect.Uint, reflect.Uint8, reflect.Uint16, reflect.Uint32, reflect.Uint64, reflect.Uintptr:
		return fmt.Sprintf("u%020d", v.Uint())
	case reflect.Float32, reflect.Float64:
		// total order on the bit pattern (any deterministic order will do)
		return fmt.Sprintf("f%020d", math.Float64bits(v.Float()))
	case reflect.Complex64, reflect.Complex128:
		c := v.Complex()
		return fmt.Sprintf("c%020d,%020d", math.Float64bits(real(c)), math.Float64bits(imag(c)))
	case reflect.String:
		return "s" + v.String()
	case reflect.Interface:
		if v.IsNil() {
			return "n"
		}
		return v.Elem().Type().String() + ":" + keyOrder(v.Elem())
	}
	panic(Divergence{fmt.Sprintf("unsupported: map key kind %s", v.Kind())})
}

// SortedKeys returns the keys of m in a deterministic order (creation order for pointers).
func SortedKeys[K comparable, V any](m map[K]V) []K {
	type kv struct {
		k K
		o string
	}
	l := make([]kv, 0, len(m))
	for k := range m {
		l = append(l, kv{k, keyOrder(reflect.ValueOf(&k).Elem())})
	}
	sort.Slice(l, func(i, j int) bool { return l[i].o < l[j].o })
	out := make([]K, len(l))
	for i := range l {
		out[i] = l[i].k
	}
	return out
}

// CloseQuiet closes a channel without a scheduling point (used from clock context and at
// construction time); closing twice is ignored.
func CloseQuiet[T any](c *Chan[T]) {
	if c == nil || c.c.closed {
		return
	}
	c.c.closed = true
	if RaceOn && S.cur != nil {
		c.c.closeVC = S.raceRelease(S.cur)
	}
	S.hbClockObj(&c.c.obj)
}

// AddTimerFunc runs f in clock context after d; returns a stop function.
func AddTimerFunc(d time.Duration, what string, f func()) func() {
	t := S.addTimer(d, 0, what, f)
	return func() { t.stopped = true }
}

// RearmTimerChan arms a (new) timer delivering on an existing channel.
func RearmTimerChan(c *Chan[time.Time], d time.Duration, periodic bool, what string) func() bool {
	var p time.Duration
	if periodic {
		p = d
	}
	var created rclock
	if RaceOn && S.cur != nil {
		created = S.raceRelease(S.cur)
	}
	t := S.addTimer(d, p, what, func() {
		if c.trySend(Now()) {
			if RaceOn {
				c.c.bufVC = append(c.c.bufVC, created)
				c.c.nsend++
			}
			S.hbClockObj(&c.c.obj)
		}
	})
	return func() bool {
		was := !t.stopped
		t.stopped = true
		S.hbClock()
		return was
	}
}

// AfterFuncThread spawns a thread running f when the timer fires; returns a stop function.
func AfterFuncThread(d time.Duration, what string, f func()) func() bool {
	s := S
	var created rclock
	if RaceOn && s.cur != nil {
		created = s.raceRelease(s.cur)
	}
	t := s.addTimer(d, 0, what, func() {
		th := s.spawn("timer-func", false, f)
		if RaceOn {
			th.rvc = created.copyOf()
		}
	})
	return func() bool {
		was := !t.stopped
		t.stopped = true
		return was
	}
}
