// Package vmrand replaces the top-level (globally seeded, hence nondeterministic) functions of
// "math/rand" in rewritten files by a generator that restarts with a fixed seed in every execution.
package vmrand

import (
	"math/rand"

	"github.com/bluenviron/gomavlib/v3/pkg/vmc"
)

var (
	cur *vmc.Sched
	r   = rand.New(rand.NewSource(1))
)

func g() *rand.Rand {
	if vmc.S != cur {
		cur = vmc.S
		r = rand.New(rand.NewSource(1))
	}
	return r
}

func Seed(int64)                         {}
func Int() int                           { return g().Int() }
func Intn(n int) int                     { return g().Intn(n) }
func Int31() int32                       { return g().Int31() }
func Int31n(n int32) int32               { return g().Int31n(n) }
func Int63() int64                       { return g().Int63() }
func Int63n(n int64) int64               { return g().Int63n(n) }
func Uint32() uint32                     { return g().Uint32() }
func Uint64() uint64                     { return g().Uint64() }
func Float32() float32                   { return g().Float32() }
func Float64() float64                   { return g().Float64() }
func ExpFloat64() float64                { return g().ExpFloat64() }
func NormFloat64() float64               { return g().NormFloat64() }
func Perm(n int) []int                   { return g().Perm(n) }
func Shuffle(n int, swap func(i, j int)) { g().Shuffle(n, swap) }
func Read(p []byte) (n int, err error)   { return g().Read(p) }
