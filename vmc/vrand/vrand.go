// Package vrand replaces "crypto/rand" in rewritten files: the scenario decides the bytes.
package vrand

// Next is the byte handed out by Read (scenario controlled; default 0).
var Next byte

// Read fills b deterministically.
func Read(b []byte) (int, error) {
	for i := range b {
		b[i] = Next
	}
	return len(b), nil
}
