// Package vrand replaces "crypto/rand" in rewritten files: the scenario decides the bytes.
package vrand

import "io"

// Next is the byte handed out by Read (scenario controlled; default 0).
var Next byte

// Read fills b deterministically.
func Read(b []byte) (int, error) {
	for i := range b {
		b[i] = Next
	}
	return len(b), nil
}

type reader struct{}

func (reader) Read(b []byte) (int, error) { return Read(b) }

// Reader is the deterministic stand-in of rand.Reader.
var Reader io.Reader = reader{}

// Text is rand.Text with the deterministic source.
func Text() string { return "AAAAAAAAAAAAAAAAAAAAAAAAAA" }
