// Package vrand replaces "crypto/rand" in rewritten files: a deterministic byte sequence that
// starts again in every execution.
package vrand

import (
	"io"

	"github.com/bluenviron/gomavlib/v3/pkg/vmc"
)

// Next is the first byte handed out in an execution (scenario controlled; default 0); the
// following bytes count upwards, so that code drawing until it finds an unused value terminates.
var Next byte

var (
	cur *vmc.Sched
	n   byte
)

// Read fills b deterministically.
func Read(b []byte) (int, error) {
	if vmc.S != cur {
		cur, n = vmc.S, 0
	}
	for i := range b {
		b[i] = Next + n
		n++
	}
	return len(b), nil
}

type reader struct{}

func (reader) Read(b []byte) (int, error) { return Read(b) }

// Reader is the deterministic stand-in of rand.Reader.
var Reader io.Reader = reader{}

// Text is rand.Text with the deterministic source.
func Text() string { return "AAAAAAAAAAAAAAAAAAAAAAAAAA" }
