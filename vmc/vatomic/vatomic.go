// Package vatomic replaces "sync/atomic" in rewritten files: every atomic operation is a
// scheduling point of the controlled scheduler and a synchronisation edge (acquire + release on
// the variable) for the happens-before tracker; the operation itself is the real one.
package vatomic

import (
	"sync/atomic"
	"unsafe"

	"github.com/bluenviron/gomavlib/v3/pkg/vmc"
)

var (
	cur   *vmc.Sched
	syncs map[unsafe.Pointer]*vmc.SyncObj
)

func pt(what string, addr unsafe.Pointer) {
	s := vmc.S
	if !vmc.InExecution() {
		return
	}
	vmc.Step("atomic." + what)
	if !vmc.RaceOn {
		return
	}
	if s != cur {
		cur = s
		syncs = map[unsafe.Pointer]*vmc.SyncObj{}
	}
	o := syncs[addr]
	if o == nil {
		o = &vmc.SyncObj{}
		syncs[addr] = o
	}
	o.Touch()
}

// ---- functions

func AddInt32(a *int32, d int32) int32 { pt("Add", unsafe.Pointer(a)); return atomic.AddInt32(a, d) }
func AddInt64(a *int64, d int64) int64 { pt("Add", unsafe.Pointer(a)); return atomic.AddInt64(a, d) }
func AddUint32(a *uint32, d uint32) uint32 {
	pt("Add", unsafe.Pointer(a))
	return atomic.AddUint32(a, d)
}
func AddUint64(a *uint64, d uint64) uint64 {
	pt("Add", unsafe.Pointer(a))
	return atomic.AddUint64(a, d)
}
func AddUintptr(a *uintptr, d uintptr) uintptr {
	pt("Add", unsafe.Pointer(a))
	return atomic.AddUintptr(a, d)
}

func LoadInt32(a *int32) int32       { pt("Load", unsafe.Pointer(a)); return atomic.LoadInt32(a) }
func LoadInt64(a *int64) int64       { pt("Load", unsafe.Pointer(a)); return atomic.LoadInt64(a) }
func LoadUint32(a *uint32) uint32    { pt("Load", unsafe.Pointer(a)); return atomic.LoadUint32(a) }
func LoadUint64(a *uint64) uint64    { pt("Load", unsafe.Pointer(a)); return atomic.LoadUint64(a) }
func LoadUintptr(a *uintptr) uintptr { pt("Load", unsafe.Pointer(a)); return atomic.LoadUintptr(a) }
func LoadPointer(a *unsafe.Pointer) unsafe.Pointer {
	pt("Load", unsafe.Pointer(a))
	return atomic.LoadPointer(a)
}

func StoreInt32(a *int32, v int32)       { pt("Store", unsafe.Pointer(a)); atomic.StoreInt32(a, v) }
func StoreInt64(a *int64, v int64)       { pt("Store", unsafe.Pointer(a)); atomic.StoreInt64(a, v) }
func StoreUint32(a *uint32, v uint32)    { pt("Store", unsafe.Pointer(a)); atomic.StoreUint32(a, v) }
func StoreUint64(a *uint64, v uint64)    { pt("Store", unsafe.Pointer(a)); atomic.StoreUint64(a, v) }
func StoreUintptr(a *uintptr, v uintptr) { pt("Store", unsafe.Pointer(a)); atomic.StoreUintptr(a, v) }
func StorePointer(a *unsafe.Pointer, v unsafe.Pointer) {
	pt("Store", unsafe.Pointer(a))
	atomic.StorePointer(a, v)
}

func SwapInt32(a *int32, v int32) int32 { pt("Swap", unsafe.Pointer(a)); return atomic.SwapInt32(a, v) }
func SwapInt64(a *int64, v int64) int64 { pt("Swap", unsafe.Pointer(a)); return atomic.SwapInt64(a, v) }
func SwapUint32(a *uint32, v uint32) uint32 {
	pt("Swap", unsafe.Pointer(a))
	return atomic.SwapUint32(a, v)
}
func SwapUint64(a *uint64, v uint64) uint64 {
	pt("Swap", unsafe.Pointer(a))
	return atomic.SwapUint64(a, v)
}
func SwapUintptr(a *uintptr, v uintptr) uintptr {
	pt("Swap", unsafe.Pointer(a))
	return atomic.SwapUintptr(a, v)
}
func SwapPointer(a *unsafe.Pointer, v unsafe.Pointer) unsafe.Pointer {
	pt("Swap", unsafe.Pointer(a))
	return atomic.SwapPointer(a, v)
}

func CompareAndSwapInt32(a *int32, o, n int32) bool {
	pt("CAS", unsafe.Pointer(a))
	return atomic.CompareAndSwapInt32(a, o, n)
}
func CompareAndSwapInt64(a *int64, o, n int64) bool {
	pt("CAS", unsafe.Pointer(a))
	return atomic.CompareAndSwapInt64(a, o, n)
}
func CompareAndSwapUint32(a *uint32, o, n uint32) bool {
	pt("CAS", unsafe.Pointer(a))
	return atomic.CompareAndSwapUint32(a, o, n)
}
func CompareAndSwapUint64(a *uint64, o, n uint64) bool {
	pt("CAS", unsafe.Pointer(a))
	return atomic.CompareAndSwapUint64(a, o, n)
}
func CompareAndSwapUintptr(a *uintptr, o, n uintptr) bool {
	pt("CAS", unsafe.Pointer(a))
	return atomic.CompareAndSwapUintptr(a, o, n)
}
func CompareAndSwapPointer(a *unsafe.Pointer, o, n unsafe.Pointer) bool {
	pt("CAS", unsafe.Pointer(a))
	return atomic.CompareAndSwapPointer(a, o, n)
}

// ---- types

type Int32 struct{ v atomic.Int32 }

func (x *Int32) Load() int32        { pt("Load", unsafe.Pointer(x)); return x.v.Load() }
func (x *Int32) Store(v int32)      { pt("Store", unsafe.Pointer(x)); x.v.Store(v) }
func (x *Int32) Swap(v int32) int32 { pt("Swap", unsafe.Pointer(x)); return x.v.Swap(v) }
func (x *Int32) Add(d int32) int32  { pt("Add", unsafe.Pointer(x)); return x.v.Add(d) }
func (x *Int32) CompareAndSwap(o, n int32) bool {
	pt("CAS", unsafe.Pointer(x))
	return x.v.CompareAndSwap(o, n)
}

type Int64 struct{ v atomic.Int64 }

func (x *Int64) Load() int64        { pt("Load", unsafe.Pointer(x)); return x.v.Load() }
func (x *Int64) Store(v int64)      { pt("Store", unsafe.Pointer(x)); x.v.Store(v) }
func (x *Int64) Swap(v int64) int64 { pt("Swap", unsafe.Pointer(x)); return x.v.Swap(v) }
func (x *Int64) Add(d int64) int64  { pt("Add", unsafe.Pointer(x)); return x.v.Add(d) }
func (x *Int64) CompareAndSwap(o, n int64) bool {
	pt("CAS", unsafe.Pointer(x))
	return x.v.CompareAndSwap(o, n)
}

type Uint32 struct{ v atomic.Uint32 }

func (x *Uint32) Load() uint32         { pt("Load", unsafe.Pointer(x)); return x.v.Load() }
func (x *Uint32) Store(v uint32)       { pt("Store", unsafe.Pointer(x)); x.v.Store(v) }
func (x *Uint32) Swap(v uint32) uint32 { pt("Swap", unsafe.Pointer(x)); return x.v.Swap(v) }
func (x *Uint32) Add(d uint32) uint32  { pt("Add", unsafe.Pointer(x)); return x.v.Add(d) }
func (x *Uint32) CompareAndSwap(o, n uint32) bool {
	pt("CAS", unsafe.Pointer(x))
	return x.v.CompareAndSwap(o, n)
}

type Uint64 struct{ v atomic.Uint64 }

func (x *Uint64) Load() uint64         { pt("Load", unsafe.Pointer(x)); return x.v.Load() }
func (x *Uint64) Store(v uint64)       { pt("Store", unsafe.Pointer(x)); x.v.Store(v) }
func (x *Uint64) Swap(v uint64) uint64 { pt("Swap", unsafe.Pointer(x)); return x.v.Swap(v) }
func (x *Uint64) Add(d uint64) uint64  { pt("Add", unsafe.Pointer(x)); return x.v.Add(d) }
func (x *Uint64) CompareAndSwap(o, n uint64) bool {
	pt("CAS", unsafe.Pointer(x))
	return x.v.CompareAndSwap(o, n)
}

type Uintptr struct{ v atomic.Uintptr }

func (x *Uintptr) Load() uintptr          { pt("Load", unsafe.Pointer(x)); return x.v.Load() }
func (x *Uintptr) Store(v uintptr)        { pt("Store", unsafe.Pointer(x)); x.v.Store(v) }
func (x *Uintptr) Swap(v uintptr) uintptr { pt("Swap", unsafe.Pointer(x)); return x.v.Swap(v) }
func (x *Uintptr) Add(d uintptr) uintptr  { pt("Add", unsafe.Pointer(x)); return x.v.Add(d) }
func (x *Uintptr) CompareAndSwap(o, n uintptr) bool {
	pt("CAS", unsafe.Pointer(x))
	return x.v.CompareAndSwap(o, n)
}

type Bool struct{ v atomic.Bool }

func (x *Bool) Load() bool       { pt("Load", unsafe.Pointer(x)); return x.v.Load() }
func (x *Bool) Store(v bool)     { pt("Store", unsafe.Pointer(x)); x.v.Store(v) }
func (x *Bool) Swap(v bool) bool { pt("Swap", unsafe.Pointer(x)); return x.v.Swap(v) }
func (x *Bool) CompareAndSwap(o, n bool) bool {
	pt("CAS", unsafe.Pointer(x))
	return x.v.CompareAndSwap(o, n)
}

type Pointer[T any] struct{ v atomic.Pointer[T] }

func (x *Pointer[T]) Load() *T     { pt("Load", unsafe.Pointer(x)); return x.v.Load() }
func (x *Pointer[T]) Store(v *T)   { pt("Store", unsafe.Pointer(x)); x.v.Store(v) }
func (x *Pointer[T]) Swap(v *T) *T { pt("Swap", unsafe.Pointer(x)); return x.v.Swap(v) }
func (x *Pointer[T]) CompareAndSwap(o, n *T) bool {
	pt("CAS", unsafe.Pointer(x))
	return x.v.CompareAndSwap(o, n)
}

type Value struct{ v atomic.Value }

func (x *Value) Load() any      { pt("Load", unsafe.Pointer(x)); return x.v.Load() }
func (x *Value) Store(v any)    { pt("Store", unsafe.Pointer(x)); x.v.Store(v) }
func (x *Value) Swap(v any) any { pt("Swap", unsafe.Pointer(x)); return x.v.Swap(v) }
func (x *Value) CompareAndSwap(o, n any) bool {
	pt("CAS", unsafe.Pointer(x))
	return x.v.CompareAndSwap(o, n)
}
