// Package bx is the plumbing shared by all checks: tier/replay handling, violation
// collection, known-findings matching, evidence writing, parallel enumeration helpers.
package bx

import (
	"encoding/json"
	"fmt"
	"hash/fnv"
	"os"
	"path/filepath"
	"regexp"
	"runtime"
	"runtime/debug"
	"sort"
	"strconv"
	"sync"
	"sync/atomic"
	"time"
)

// Root is the /verif directory (overridable for background runs from a snapshot).
func Root() string {
	if r := os.Getenv("VERIF_ROOT"); r != "" {
		return r
	}
	return "/verif"
}

// Violation is one failed case.
type Violation struct {
	Class  string          `json:"class"`
	Key    string          `json:"key"`
	Case   json.RawMessage `json:"case"`
	Detail string          `json:"detail"`
}

// Replayer re-executes one recorded case and tells whether it (still) violates.
type Replayer func(class string, c json.RawMessage) (violated bool, detail string)

// Run is one invocation of a check.
type Run struct {
	ID    string
	Tier  string
	Seed  int64
	Level string

	ReplayPath string
	Replayer   Replayer

	start      time.Time
	deadline   time.Time
	mu         sync.Mutex
	viol       map[string][]Violation // by class
	violCount  map[string]int
	samples    []any
	capped     int32
	notes      []string
	Assumption []string
}

// Start parses the command line: `<bin> quick|thorough` or `<bin> --replay <file>`.
func Start(id, level string) *Run {
	// the checks allocate many short-lived objects on all cores: a small heap makes the GC run
	// continuously and serialises the workers
	debug.SetGCPercent(400)
	debug.SetMemoryLimit(12 << 30)
	r := &Run{ID: id, Level: level, Tier: "quick", start: time.Now(),
		viol: map[string][]Violation{}, violCount: map[string]int{}}
	if t := os.Getenv("VERIF_TIER"); t == "quick" || t == "thorough" {
		r.Tier = t
	}
	if s := os.Getenv("VERIF_SEED"); s != "" {
		r.Seed, _ = strconv.ParseInt(s, 10, 64)
	}
	args := os.Args[1:]
	for i := 0; i < len(args); i++ {
		switch args[i] {
		case "quick", "thorough":
			r.Tier = args[i]
		case "--replay":
			if i+1 >= len(args) {
				Fatalf("--replay needs a path")
			}
			r.ReplayPath = args[i+1]
			i++
		default:
			Fatalf("unknown argument %q", args[i])
		}
	}
	// internal deadline: a run that would exceed it stops early with exhaustive:false
	lim := 15 * time.Minute
	if r.Tier == "thorough" {
		lim = 3 * time.Hour
	}
	if s := os.Getenv("VERIF_DEADLINE_S"); s != "" {
		if n, err := strconv.Atoi(s); err == nil {
			lim = time.Duration(n) * time.Second
		}
	}
	r.deadline = r.start.Add(lim)
	current = r
	return r
}

var current *Run

// Thorough tells whether the thorough tier was requested.
func (r *Run) Thorough() bool { return r.Tier == "thorough" }

// Pick returns q for quick and t for thorough.
func (r *Run) Pick(q, t int) int {
	if r.Thorough() {
		return t
	}
	return q
}

// Expired reports whether the internal deadline has passed; the caller stops enumerating and
// the evidence says exhaustive:false.
func (r *Run) Expired() bool {
	if time.Now().After(r.deadline) {
		atomic.StoreInt32(&r.capped, 1)
		return true
	}
	return false
}

// Capped marks the run as not exhaustive for another reason.
func (r *Run) Capped(why string) {
	atomic.StoreInt32(&r.capped, 1)
	r.Note("cap: " + why)
}

// Note adds a free text note to the evidence.
func (r *Run) Note(s string) {
	r.mu.Lock()
	r.notes = append(r.notes, s)
	r.mu.Unlock()
}

// Fatalf reports a failure of the machinery itself (exit 2, never a VIOLATION).
func Fatalf(format string, a ...any) {
	fmt.Fprintf(os.Stderr, "MACHINERY-ERROR: "+format+"\n", a...)
	os.Exit(2)
}

// Fail records a violation of class `class`; key identifies the concrete witness (used for
// known-finding matching), c is the replayable case.
func (r *Run) Fail(class, key string, c any, detail string) {
	raw, err := json.Marshal(c)
	if err != nil {
		Fatalf("cannot encode case: %v", err)
	}
	r.mu.Lock()
	defer r.mu.Unlock()
	r.violCount[class]++
	// keep the 8 simplest witnesses (shortest key first)
	l := append(r.viol[class], Violation{class, key, raw, detail})
	sort.SliceStable(l, func(i, j int) bool {
		if len(l[i].Key) != len(l[j].Key) {
			return len(l[i].Key) < len(l[j].Key)
		}
		return l[i].Key < l[j].Key
	})
	if len(l) > 8 {
		l = l[:8]
	}
	r.viol[class] = l
}

// Failed tells whether any violation was recorded so far.
func (r *Run) Failed() bool {
	r.mu.Lock()
	defer r.mu.Unlock()
	return len(r.violCount) > 0
}

// Sample keeps a few literal cases for the evidence file.
func (r *Run) Sample(x any) {
	r.mu.Lock()
	if len(r.samples) < 6 {
		r.samples = append(r.samples, x)
	}
	r.mu.Unlock()
}

type finding struct {
	Property string `json:"property"`
	Class    string `json:"class"`
	Status   string `json:"status"` // open | fixed
	Commit   string `json:"commit,omitempty"`
	Match    string `json:"match,omitempty"` // regexp over the violation key (open findings)
	Line     string `json:"line"`
	What     string `json:"what"`
}

func loadFindings() []finding {
	b, err := os.ReadFile(filepath.Join(Root(), "known_findings.json"))
	if err != nil {
		return nil
	}
	var f struct {
		Findings []finding `json:"findings"`
	}
	if err := json.Unmarshal(b, &f); err != nil {
		Fatalf("known_findings.json: %v", err)
	}
	return f.Findings
}

// ReplayMode handles `--replay`: returns true if it ran (the caller should return).
func (r *Run) ReplayMode() bool {
	if r.ReplayPath == "" {
		return false
	}
	b, err := os.ReadFile(r.ReplayPath)
	if err != nil {
		Fatalf("replay: %v", err)
	}
	var v struct {
		Property string `json:"property"`
		Violation
	}
	if err := json.Unmarshal(b, &v); err != nil {
		Fatalf("replay: %v", err)
	}
	if r.Replayer == nil {
		Fatalf("check %s has no replayer", r.ID)
	}
	bad, detail := r.Replayer(v.Class, v.Case)
	fmt.Printf("replay property=%s class=%s case=%s\n", r.ID, v.Class, string(v.Case))
	if bad {
		fmt.Printf("REPRODUCED: %s\n", detail)
		fmt.Printf("VIOLATION property=%s replay=%s\n", r.ID, r.ReplayPath)
		os.Exit(1)
	}
	fmt.Println("not reproduced on this tree (property holds on the recorded case)")
	os.Exit(0)
	return true
}

// Finish writes the evidence file, prints KNOWN-FINDING / VIOLATION lines and exits.
func (r *Run) Finish(cov map[string]any) {
	wall := time.Since(r.start).Seconds()
	findings := loadFindings()

	classes := make([]string, 0, len(r.viol))
	for c := range r.viol {
		classes = append(classes, c)
	}
	sort.Strings(classes)

	exit := 0
	nviol := 0
	var lines []string
	for _, class := range classes {
		var unknown []Violation
		knownPrinted := map[string]bool{}
		for _, v := range r.viol[class] {
			matched := false
			for _, f := range findings {
				if f.Property != r.ID || f.Class != class || f.Status != "open" {
					continue
				}
				if f.Match == "" {
					continue
				}
				re, err := regexp.Compile(f.Match)
				if err != nil {
					Fatalf("known_findings.json: bad regexp %q", f.Match)
				}
				if re.MatchString(v.Key) {
					matched = true
					if !knownPrinted[f.Line] {
						knownPrinted[f.Line] = true
						lines = append(lines, fmt.Sprintf("KNOWN-FINDING: property=%s %s: %s", r.ID, class, f.What))
					}
					break
				}
			}
			if !matched {
				unknown = append(unknown, v)
			}
		}
		if len(unknown) == 0 {
			continue
		}
		v := unknown[0]
		// a violation is believed only if it reproduces
		if r.Replayer != nil && class != "panic" {
			for i := 0; i < 5; i++ {
				bad, _ := r.Replayer(v.Class, v.Case)
				if !bad {
					Fatalf("violation %s/%s did not reproduce on re-execution %d: nondeterminism in the harness (%s)", r.ID, v.Key, i+1, v.Detail)
				}
			}
		}
		nviol += r.violCount[class]
		rdir := filepath.Join(Root(), "replays")
		if rp := os.Getenv("VERIF_REPO_PATH"); rp != "" && rp != "/repo" {
			rdir = filepath.Join(Root(), "replays", "scratch")
		}
		os.MkdirAll(rdir, 0o755)
		h := fnv.New32a()
		h.Write([]byte(v.Key))
		path := filepath.Join(rdir, fmt.Sprintf("%s-%s-%08x.json", r.ID, class, h.Sum32()))
		out, _ := json.MarshalIndent(struct {
			Property string `json:"property"`
			Violation
			Count int `json:"count_in_class"`
		}{r.ID, v, r.violCount[class]}, "", " ")
		if err := os.WriteFile(path, out, 0o644); err != nil {
			Fatalf("cannot write replay: %v", err)
		}
		fmt.Printf("violation class=%s count=%d first: key=%s\n  %s\n", class, r.violCount[class], v.Key, v.Detail)
		lines = append(lines, fmt.Sprintf("VIOLATION property=%s replay=%s", r.ID, path))
		exit = 1
	}

	if cov == nil {
		cov = map[string]any{}
	}
	if _, ok := cov["samples"]; !ok {
		cov["samples"] = r.samples
	}
	if atomic.LoadInt32(&r.capped) != 0 {
		cov["exhaustive"] = false
	} else if _, ok := cov["exhaustive"]; !ok {
		cov["exhaustive"] = true
	}
	if len(r.notes) > 0 {
		cov["notes"] = r.notes
	}
	ev := map[string]any{
		"property_id": r.ID,
		"tier":        r.Tier,
		"seed":        r.Seed,
		"level":       r.Level,
		"coverage":    cov,
		"assumptions": r.Assumption,
		"wall_s":      wall,
		"violations":  nviol,
	}
	if ev["assumptions"] == nil {
		ev["assumptions"] = []string{}
	}
	b, err := json.MarshalIndent(ev, "", " ")
	if err != nil {
		Fatalf("evidence: %v", err)
	}
	evdir := filepath.Join(Root(), "evidence")
	if rp := os.Getenv("VERIF_REPO_PATH"); rp != "" && rp != "/repo" {
		// run against a scratch copy (mutant testing): never overwrite the real evidence
		evdir = os.Getenv("VERIF_SCRATCH")
	}
	if os.Getenv("VERIF_ONLY") != "" && os.Getenv("VERIF_SCRATCH") != "" {
		// partial run (development aid): the evidence of a partial run never replaces the real one
		evdir = os.Getenv("VERIF_SCRATCH")
	}
	os.MkdirAll(evdir, 0o755)
	if err := os.WriteFile(filepath.Join(evdir, r.ID+".json"), b, 0o644); err != nil {
		Fatalf("evidence: %v", err)
	}
	for _, l := range lines {
		fmt.Println(l)
	}
	fmt.Printf("%s %s: %s wall=%.1fs\n", r.ID, r.Tier, map[int]string{0: "OK", 1: "FAILED"}[exit], wall)
	os.Exit(exit)
}

// ParDo runs f(i) for i in [0,n) on all cores. f must be safe for concurrent use.
func ParDo(n int, f func(i int)) {
	w := runtime.GOMAXPROCS(0)
	if w > n {
		w = n
	}
	if w <= 1 {
		for i := 0; i < n; i++ {
			safe(i, f)
		}
		return
	}
	var next int64 = -1
	var wg sync.WaitGroup
	for k := 0; k < w; k++ {
		wg.Add(1)
		go func() {
			defer wg.Done()
			for {
				i := int(atomic.AddInt64(&next, 1))
				if i >= n {
					return
				}
				safe(i, f)
			}
		}()
	}
	wg.Wait()
}

// safe runs one work item; a panic that escapes it (from the code under test) is a violation of
// class "panic", not a crash of the checker.
func safe(i int, f func(int)) {
	defer func() {
		if e := recover(); e != nil {
			buf := make([]byte, 4096)
			n := runtime.Stack(buf, false)
			if current == nil {
				panic(e)
			}
			current.Fail("panic", fmt.Sprintf("item %d: %v", i, e), map[string]any{"item": i}, fmt.Sprintf("panic: %v\n%s", e, buf[:n]))
		}
	}()
	f(i)
}

// Counter is an atomic counter.
type Counter struct{ n int64 }

// Add adds.
func (c *Counter) Add(d int) { atomic.AddInt64(&c.n, int64(d)) }

// N reads.
func (c *Counter) N() int { return int(atomic.LoadInt64(&c.n)) }

// Distinct counts distinct 64 bit keys (sharded set).
type Distinct struct {
	sh [64]struct {
		mu sync.Mutex
		m  map[uint64]struct{}
	}
}

// Add inserts a key, returns true if new.
func (d *Distinct) Add(k uint64) bool {
	s := &d.sh[k%64]
	s.mu.Lock()
	defer s.mu.Unlock()
	if s.m == nil {
		s.m = map[uint64]struct{}{}
	}
	if _, ok := s.m[k]; ok {
		return false
	}
	s.m[k] = struct{}{}
	return true
}

// AddBytes hashes and inserts.
func (d *Distinct) AddBytes(b ...[]byte) bool {
	h := fnv.New64a()
	for _, x := range b {
		h.Write(x)
		h.Write([]byte{0xff, 0x00, 0xff})
	}
	return d.Add(h.Sum64())
}

// AddString hashes and inserts.
func (d *Distinct) AddString(s string) bool { return d.AddBytes([]byte(s)) }

// N is the number of distinct keys.
func (d *Distinct) N() int {
	n := 0
	for i := range d.sh {
		d.sh[i].mu.Lock()
		n += len(d.sh[i].m)
		d.sh[i].mu.Unlock()
	}
	return n
}

// Catch runs f and converts a panic into an error string ("" = no panic).
func Catch(f func()) (p string) {
	defer func() {
		if e := recover(); e != nil {
			buf := make([]byte, 2048)
			n := runtime.Stack(buf, false)
			p = fmt.Sprintf("panic: %v\n%s", e, buf[:n])
		}
	}()
	f()
	return ""
}
