// Package enumreg is the registry of the shipped dialects' enums, constants and message
// groups. Its content (zz_generated.go) is produced at check time by cmd/gendialects from
// /repo's working tree and supplied to the build through an overlay.
package enumreg

import "github.com/bluenviron/gomavlib/v3/pkg/message"

// Const is one enum constant as evaluated by the type checker.
type Const struct {
	Name  string
	Value uint64
}

// Enum is one non-alias enum type.
type Enum struct {
	Pkg       string
	Name      string
	Bitmask   bool // MarshalText joins flag names
	Consts    []Const
	Marshal   func(uint64) (string, error)
	Unmarshal func(string) (uint64, error)
	String    func(uint64) string
}

// PkgConst is one constant of any enum type (alias or not) in a dialect package.
type PkgConst struct {
	Pkg, Type, Name string
	Value           uint64
	DefPkg          string // package that declares the underlying enum type
}

// Entry is one message of a dialect's list with the include group it is listed under.
type Entry struct {
	Dialect string
	Group   string
	Msg     message.Message
}

// All, Consts, Entries are filled by the generated file.
var (
	All     []Enum
	Consts  []PkgConst
	Entries []Entry
)
