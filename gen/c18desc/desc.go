// Package c18desc holds the XML case descriptors shared by the C18 orchestrator and its
// generated driver. A descriptor is the *source* of an XML document: the reference layout,
// sizes, CRC_EXTRA and constants are computed from it, never from generated code.
package c18desc

import (
	"fmt"
	"strings"

	"verif/ref"
)

// Field is one <field>.
type Field struct {
	Name     string `json:"name"`
	Type     string `json:"type"` // wire type, may be uint8_t_mavlink_version
	ArrayLen int    `json:"array_len"`
	Enum     string `json:"enum,omitempty"`
	Ext      bool   `json:"ext"`
}

// Msg is one <message>.
type Msg struct {
	Name   string  `json:"name"`
	ID     int     `json:"id"`
	Fields []Field `json:"fields"`
}

// EnumEntry is one <entry>.
type EnumEntry struct {
	Name  string `json:"name"`
	Text  string `json:"text"`  // value as written in the XML
	Value uint64 `json:"value"` // its meaning
}

// Enum is one <enum>.
type Enum struct {
	Name    string      `json:"name"`
	Bitmask bool        `json:"bitmask"`
	Entries []EnumEntry `json:"entries"`
}

// Doc is one XML file.
type Doc struct {
	File     string   `json:"file"`
	Version  string   `json:"version,omitempty"`
	Includes []string `json:"includes,omitempty"`
	Enums    []Enum   `json:"enums,omitempty"`
	Msgs     []Msg    `json:"msgs,omitempty"`
}

// Pkg is the expectation for one generated package (a main document with its includes
// flattened, link mode off).
type Pkg struct {
	Name    string `json:"name"`    // Go package name
	Main    string `json:"main"`    // main XML file
	Version int    `json:"version"` // expected dialect version
	Msgs    []Msg  `json:"msgs"`
	Enums   []Enum `json:"enums"`
}

// XML renders the document.
func (d *Doc) XML() string {
	var sb strings.Builder
	sb.WriteString("<?xml version=\"1.0\"?>\n<mavlink>\n")
	for _, inc := range d.Includes {
		fmt.Fprintf(&sb, "  <include>%s</include>\n", inc)
	}
	if d.Version != "" {
		fmt.Fprintf(&sb, "  <version>%s</version>\n", d.Version)
	}
	sb.WriteString("  <dialect>0</dialect>\n  <enums>\n")
	for _, e := range d.Enums {
		bm := ""
		if e.Bitmask {
			bm = ` bitmask="true"`
		}
		fmt.Fprintf(&sb, "    <enum name=%q%s>\n      <description>enum %s</description>\n", e.Name, bm, e.Name)
		for _, en := range e.Entries {
			fmt.Fprintf(&sb, "      <entry value=%q name=%q><description>entry</description></entry>\n", en.Text, en.Name)
		}
		sb.WriteString("    </enum>\n")
	}
	sb.WriteString("  </enums>\n  <messages>\n")
	for _, m := range d.Msgs {
		fmt.Fprintf(&sb, "    <message id=\"%d\" name=%q>\n      <description>message %s</description>\n", m.ID, m.Name, m.Name)
		ext := false
		for _, f := range m.Fields {
			if f.Ext && !ext {
				sb.WriteString("      <extensions/>\n")
				ext = true
			}
			t := f.Type
			if f.ArrayLen > 0 {
				t = fmt.Sprintf("%s[%d]", t, f.ArrayLen)
			}
			en := ""
			if f.Enum != "" {
				en = fmt.Sprintf(" enum=%q", f.Enum)
			}
			fmt.Fprintf(&sb, "      <field type=%q name=%q%s>a field</field>\n", t, f.Name, en)
		}
		sb.WriteString("    </message>\n")
	}
	sb.WriteString("  </messages>\n</mavlink>\n")
	return sb.String()
}

// Def is the reference definition of a message, straight from the descriptor.
func (m *Msg) Def() *ref.MsgDef {
	d := &ref.MsgDef{Name: m.Name, ID: uint32(m.ID)}
	for i, f := range m.Fields {
		t := f.Type
		if t == "uint8_t_mavlink_version" {
			t = "uint8_t"
		}
		d.Fields = append(d.Fields, ref.FieldDef{Name: f.Name, Type: t, ArrayLen: f.ArrayLen, Ext: f.Ext, Enum: f.Enum != "", Index: i})
	}
	return d
}
